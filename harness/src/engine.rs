//! Search engine shared by all properties: deterministic multi-worker proptest
//! runs, statistics / evidence, replay files, known-findings protocol,
//! exit-code discipline and the in-process `exit` trap.

use proptest::strategy::{BoxedStrategy, Strategy};
use proptest::test_runner::{Config, RngSeed, TestCaseError, TestError, TestRunner};
use serde_json::{json, Map, Value};
use std::cell::{Cell, RefCell};
use std::collections::hash_map::DefaultHasher;
use std::collections::{BTreeMap, HashSet};
use std::hash::{Hash, Hasher};
use std::path::{Path, PathBuf};
use std::sync::atomic::{AtomicBool, Ordering};
use std::sync::Mutex;
use std::time::Instant;

#[derive(Clone, Copy, PartialEq, Eq, Debug)]
pub enum Tier {
    Quick,
    Thorough,
}

impl Tier {
    pub fn name(&self) -> &'static str {
        match self {
            Tier::Quick => "quick",
            Tier::Thorough => "thorough",
        }
    }
    /// pick by tier
    pub fn pick<T>(&self, quick: T, thorough: T) -> T {
        match self {
            Tier::Quick => quick,
            Tier::Thorough => thorough,
        }
    }
}

#[derive(Clone, Debug)]
pub struct Known {
    pub property: String,
    pub key: String,
    pub replay: String,
    pub what: String,
}

pub struct Ctx {
    pub id: String,
    pub tier: Tier,
    pub seed: u64,
    pub workers: usize,
    pub verif: PathBuf,
    pub scratch: PathBuf,
    pub known: Vec<Known>,
    /// strict = replay mode: known findings are not tolerated silently
    pub strict: bool,
}

impl Ctx {
    pub fn known_keys(&self) -> Vec<String> {
        self.known.iter().filter(|k| k.property == self.id).map(|k| k.key.clone()).collect()
    }
    pub fn hyeong_bin(&self) -> PathBuf {
        self.verif.join("target/repo/release/hyeong")
    }
    pub fn rlib(&self) -> PathBuf {
        self.verif.join("target/numlib/libhyeong.rlib")
    }
}

#[derive(Clone, Debug)]
pub struct Failure {
    /// stable signature of *what* failed (used for the known-findings protocol)
    pub sig: String,
    pub msg: String,
}

impl Failure {
    pub fn new(sig: impl Into<String>, msg: impl Into<String>) -> Failure {
        Failure { sig: sig.into(), msg: msg.into() }
    }
}

pub type CheckResult = Result<(), Failure>;

#[macro_export]
macro_rules! fail {
    ($sig:expr, $($arg:tt)*) => {
        return Err($crate::engine::Failure::new($sig, format!($($arg)*)))
    };
}

#[macro_export]
macro_rules! ensure {
    ($cond:expr, $sig:expr, $($arg:tt)*) => {
        if !($cond) {
            return Err($crate::engine::Failure::new($sig, format!($($arg)*)));
        }
    };
}

pub trait Case: Clone + std::fmt::Debug + Send + 'static {
    fn to_json(&self) -> Value;
    fn from_json(v: &Value) -> Option<Self>;
}

#[derive(Default)]
pub struct Stats {
    pub evaluations: u64,
    pub nontrivial: HashSet<u64>,
    pub classes: BTreeMap<String, u64>,
    pub excluded: BTreeMap<String, u64>,
    pub samples: Vec<Value>,
    pub nontrivial_samples: Vec<Value>,
    /// harness trouble observed while checking a case (watchdog expiry, spawn failure): exit 2, never a violation
    pub inconclusive: Vec<String>,
    frozen: bool,
}

pub const MAX_SAMPLES: usize = 6;

impl Stats {
    pub fn new() -> Stats {
        Stats::default()
    }
    pub fn class(&mut self, name: &str) {
        if !self.frozen {
            *self.classes.entry(name.to_string()).or_insert(0) += 1;
        }
    }
    pub fn class_n(&mut self, name: &str, n: u64) {
        if !self.frozen {
            *self.classes.entry(name.to_string()).or_insert(0) += n;
        }
    }
    pub fn exclude(&mut self, name: &str) {
        if !self.frozen {
            *self.excluded.entry(name.to_string()).or_insert(0) += 1;
        }
    }
    /// record that the current case is non-trivial; `fp` is a fingerprint of the case
    pub fn nontrivial<H: Hash>(&mut self, fp: &H, sample: impl FnOnce() -> Value) {
        if self.frozen {
            return;
        }
        let mut h = DefaultHasher::new();
        fp.hash(&mut h);
        if self.nontrivial.insert(h.finish()) && self.nontrivial_samples.len() < MAX_SAMPLES {
            // keep a spread: the 1st, 2nd, 4th, 8th ... distinct non-trivial case of this worker
            let n = self.nontrivial.len();
            if n.is_power_of_two() {
                self.nontrivial_samples.push(sample());
            }
        }
    }
    pub fn trouble(&mut self, msg: impl Into<String>) {
        if self.inconclusive.len() < 8 {
            self.inconclusive.push(msg.into());
        }
    }
    pub fn merge(&mut self, o: Stats) {
        self.evaluations += o.evaluations;
        for m in o.inconclusive {
            if self.inconclusive.len() < 8 {
                self.inconclusive.push(m);
            }
        }
        self.nontrivial.extend(o.nontrivial);
        for (k, v) in o.classes {
            *self.classes.entry(k).or_insert(0) += v;
        }
        for (k, v) in o.excluded {
            *self.excluded.entry(k).or_insert(0) += v;
        }
        for s in o.samples {
            if self.samples.len() < MAX_SAMPLES {
                self.samples.push(s);
            }
        }
        for s in o.nontrivial_samples {
            if self.nontrivial_samples.len() < 2 * MAX_SAMPLES {
                self.nontrivial_samples.push(s);
            }
        }
    }
    pub fn get(&self, class: &str) -> u64 {
        *self.classes.get(class).unwrap_or(&0)
    }
}

/// outcome of one check run
pub struct Outcome {
    pub stats: Stats,
    pub violations: Vec<(Failure, PathBuf)>,
    pub known_hits: Vec<String>,
    pub inconclusive: Vec<String>,
    pub stages: Vec<Value>,
}

impl Outcome {
    pub fn new() -> Outcome {
        Outcome {
            stats: Stats::new(),
            violations: Vec::new(),
            known_hits: Vec::new(),
            inconclusive: Vec::new(),
            stages: Vec::new(),
        }
    }
    pub fn failed(&self) -> bool {
        !self.violations.is_empty()
    }
}

// ---------------------------------------------------------------------------------------------
// in-process exit trap + panic capture

thread_local! {
    static CUR_CASE: Cell<Option<(*const (), fn(*const ()) -> Value)>> = Cell::new(None);
    static LAST_PANIC: RefCell<Option<String>> = RefCell::new(None);
    static IN_CHECK: Cell<bool> = Cell::new(false);
}

static FINISHED: AtomicBool = AtomicBool::new(false);
static EXIT_INFO: Mutex<Option<(String, PathBuf)>> = Mutex::new(None); // (property id, failures dir)

extern "C" fn on_exit() {
    if FINISHED.load(Ordering::SeqCst) {
        return;
    }
    // some code called exit() before the harness finished: the code under test terminated the process
    let info = EXIT_INFO.lock().ok().and_then(|g| g.clone());
    let (id, dir) = info.unwrap_or(("UNKNOWN".to_string(), PathBuf::from("/verif/failures")));
    let case = CUR_CASE.with(|c| c.get()).map(|(p, f)| f(p));
    let v = json!({
        "property": id,
        "stage": "in-process exit",
        "sig": "process-exit-in-process",
        "msg": "the code under test terminated the process (exit) where the definition does not call for it",
        "case": case,
    });
    let path = write_failure(&dir, &id, &v);
    println!("VIOLATION property={} replay={}", id, path.display());
    use std::io::Write;
    let _ = std::io::stdout().flush();
    unsafe { libc::_exit(1) }
}

pub fn install_traps(id: &str, failures_dir: &Path) {
    *EXIT_INFO.lock().unwrap() = Some((id.to_string(), failures_dir.to_path_buf()));
    unsafe {
        libc::atexit(on_exit);
    }
    std::panic::set_hook(Box::new(|info| {
        let msg = format!("{}", info);
        if IN_CHECK.with(|c| c.get()) {
            LAST_PANIC.with(|p| *p.borrow_mut() = Some(msg));
        } else {
            eprintln!("harness panic: {}", msg);
        }
    }));
}

pub fn mark_finished() {
    FINISHED.store(true, Ordering::SeqCst);
}

/// run `f`, converting a panic in the code under test into a Failure
pub fn guarded<R>(sig: &str, f: impl FnOnce() -> R) -> Result<R, Failure> {
    let prev = IN_CHECK.with(|c| c.replace(true));
    let r = std::panic::catch_unwind(std::panic::AssertUnwindSafe(f));
    IN_CHECK.with(|c| c.set(prev));
    match r {
        Ok(v) => Ok(v),
        Err(_) => {
            let msg = LAST_PANIC.with(|p| p.borrow_mut().take()).unwrap_or_else(|| "panic".to_string());
            Err(Failure::new(format!("panic:{}", sig), format!("panic in code under test: {}", msg)))
        }
    }
}

fn case_to_json_thunk<C: Case>(p: *const ()) -> Value {
    let c: &C = unsafe { &*(p as *const C) };
    c.to_json()
}

/// registry of the cases currently being checked (one slot per worker), for the hang watchdog
struct Slot {
    started: Instant,
    case_ptr: usize,
    thunk: fn(*const ()) -> Value,
    stage: String,
}
static SLOTS: Mutex<Vec<Option<Slot>>> = Mutex::new(Vec::new());
thread_local! {
    static MY_SLOT: Cell<Option<usize>> = Cell::new(None);
}

struct CurGuard;
impl Drop for CurGuard {
    fn drop(&mut self) {
        CUR_CASE.with(|c| c.set(None));
        if let Some(i) = MY_SLOT.with(|s| s.get()) {
            if let Ok(mut g) = SLOTS.lock() {
                if let Some(x) = g.get_mut(i) {
                    *x = None;
                }
            }
        }
    }
}
fn set_current<C: Case>(c: &C) -> CurGuard {
    CUR_CASE.with(|cur| cur.set(Some((c as *const C as *const (), case_to_json_thunk::<C>))));
    if let Ok(mut g) = SLOTS.lock() {
        let i = match MY_SLOT.with(|s| s.get()) {
            Some(i) => i,
            None => {
                g.push(None);
                let i = g.len() - 1;
                MY_SLOT.with(|s| s.set(Some(i)));
                i
            }
        };
        g[i] = Some(Slot { started: Instant::now(), case_ptr: c as *const C as usize, thunk: case_to_json_thunk::<C>, stage: CUR_STAGE.with(|s| s.borrow().clone()) });
    }
    CurGuard
}

thread_local! {
    static CUR_STAGE: RefCell<String> = RefCell::new(String::new());
}

/// A case that does not come back: code under test looping forever in-process (or a harness defect). The run cannot go on
/// and must not look like a pass; following the rule "hang / watchdog = inconclusive, never a violation" the harness stops
/// with exit status 2 after saving the case for diagnosis.
pub fn start_hang_watchdog(id: &str, failures_dir: &Path, limit: std::time::Duration, as_violation: bool) {
    let id = id.to_string();
    let dir = failures_dir.to_path_buf();
    std::thread::spawn(move || loop {
        std::thread::sleep(std::time::Duration::from_secs(5));
        if FINISHED.load(Ordering::SeqCst) {
            return;
        }
        let stuck = SLOTS.lock().ok().and_then(|g| g.iter().flatten().find(|s| s.started.elapsed() > limit).map(|s| (s.case_ptr, s.thunk, s.stage.clone(), s.started.elapsed())));
        if let Some((ptr, thunk, stage, el)) = stuck {
            // the worker is still inside check(), so the case it points to is alive
            let case = thunk(ptr as *const ());
            let v = json!({"property": id, "stage": stage, "sig": "hang", "msg": format!("a single case did not come back within {} s", el.as_secs()), "case": case});
            let p = write_failure(&dir, &id, &v);
            use std::io::Write;
            FINISHED.store(true, Ordering::SeqCst);
            if as_violation {
                // pure in-process arithmetic on operands of a few limbs: a case costs microseconds; not coming back for this long
                // means the operation under test does not return its result
                println!("violation [hang:{}]: an operation on small operands did not return within {} s", stage, el.as_secs());
                println!("VIOLATION property={} replay={}", id, p.display());
                let _ = std::io::stdout().flush();
                unsafe { libc::_exit(1) }
            }
            println!("INCONCLUSIVE a case of stage `{}` did not return within {} s (in-process hang or harness defect); case saved as {}", stage, el.as_secs(), p.display());
            let _ = std::io::stdout().flush();
            unsafe { libc::_exit(2) }
        }
    });
}

// ---------------------------------------------------------------------------------------------

fn mix(seed: u64, id: &str, stage: &str, worker: usize) -> u64 {
    // FNV-1a over the textual key: stable across runs and rust versions
    let key = format!("{}|{}|{}|{}", seed, id, stage, worker);
    let mut h: u64 = 0xcbf29ce484222325;
    for b in key.bytes() {
        h ^= b as u64;
        h = h.wrapping_mul(0x100000001b3);
    }
    h
}

pub fn write_failure(dir: &Path, id: &str, v: &Value) -> PathBuf {
    let d = dir.join(id);
    let _ = std::fs::create_dir_all(&d);
    let text = serde_json::to_string_pretty(v).unwrap();
    let mut h: u64 = 0xcbf29ce484222325;
    for b in text.bytes() {
        h ^= b as u64;
        h = h.wrapping_mul(0x100000001b3);
    }
    let p = d.join(format!("{:016x}.json", h));
    let _ = std::fs::write(&p, text);
    p
}

/// Run a generated-input search stage.
pub fn search<C: Case>(
    ctx: &Ctx,
    out: &mut Outcome,
    stage: &str,
    total_cases: u64,
    strat: &(dyn Fn() -> BoxedStrategy<C> + Sync),
    check: &(dyn Fn(&C, &mut Stats) -> CheckResult + Sync),
) {
    if out.failed() {
        return; // a violation was already found: report it, do not bury it
    }
    let t0 = Instant::now();
    let workers = ctx.workers.max(1).min(total_cases.max(1) as usize);
    let per = (total_cases + workers as u64 - 1) / workers as u64;
    let known = ctx.known_keys();
    let results: Vec<(Stats, Option<(Failure, C)>, Option<String>)> = std::thread::scope(|s| {
        let mut hs = Vec::new();
        for w in 0..workers {
            let known = known.clone();
            let h = std::thread::Builder::new()
                .stack_size(256 << 20)
                .spawn_scoped(s, move || {
                    let stats = RefCell::new(Stats::new());
                    let first_fail: RefCell<Option<Failure>> = RefCell::new(None);
                    let last_fail: RefCell<Option<Failure>> = RefCell::new(None);
                    let cfg = Config {
                        cases: per as u32,
                        failure_persistence: None,
                        rng_seed: RngSeed::Fixed(mix(ctx.seed, &ctx.id, stage, w)),
                        max_shrink_iters: 3000,
                        max_shrink_time: 45_000,
                        max_global_rejects: 1 << 20,
                        ..Config::default()
                    };
                    CUR_STAGE.with(|s| *s.borrow_mut() = stage.to_string());
                    let mut runner = TestRunner::new(cfg);
                    let strategy = strat();
                    let res = runner.run(&strategy, |c| {
                        let _g = set_current(&c);
                        let mut st = stats.borrow_mut();
                        if !st.frozen {
                            st.evaluations += 1;
                        }
                        let r = match guarded(stage, || check(&c, &mut st)) {
                            Ok(r) => r,
                            Err(f) => Err(f),
                        };
                        match r {
                            Ok(()) => Ok(()),
                            Err(f) => {
                                if known.iter().any(|k| *k == f.sig) {
                                    st.exclude(&format!("known:{}", f.sig));
                                    return Ok(());
                                }
                                st.frozen = true;
                                if first_fail.borrow().is_none() {
                                    *first_fail.borrow_mut() = Some(f.clone());
                                }
                                let m = f.msg.clone();
                                *last_fail.borrow_mut() = Some(f);
                                Err(TestCaseError::fail(m))
                            }
                        }
                    });
                    let mut st = stats.into_inner();
                    st.frozen = false;
                    match res {
                        Ok(()) => (st, None, None),
                        Err(TestError::Fail(reason, minimal)) => {
                            // re-run the minimal case to get its own signature
                            let mut scratch = Stats::new();
                            scratch.frozen = true;
                            let f = match guarded(stage, || check(&minimal, &mut scratch)) {
                                Ok(Err(f)) | Err(f) => f,
                                Ok(Ok(())) => last_fail.into_inner().unwrap_or_else(|| {
                                    Failure::new("unstable", format!("failure did not reproduce on the minimal case: {}", reason))
                                }),
                            };
                            (st, Some((f, minimal)), None)
                        }
                        Err(TestError::Abort(reason)) => (st, None, Some(format!("proptest aborted: {}", reason))),
                    }
                })
                .unwrap();
            hs.push(h);
        }
        hs.into_iter().map(|h| h.join().expect("worker thread died")).collect()
    });
    let mut stage_evals = 0;
    for (st, fail, abort) in results {
        stage_evals += st.evaluations;
        for m in &st.inconclusive {
            out.inconclusive.push(format!("{}: {}", stage, m));
        }
        out.stats.merge(st);
        if let Some(a) = abort {
            out.inconclusive.push(format!("{}: {}", stage, a));
        }
        if let Some((f, c)) = fail {
            if out.violations.is_empty() {
                let v = json!({
                    "property": ctx.id,
                    "stage": stage,
                    "sig": f.sig,
                    "msg": f.msg,
                    "case": c.to_json(),
                });
                let p = write_failure(&ctx.verif.join("failures"), &ctx.id, &v);
                out.violations.push((f, p));
            }
        }
    }
    out.stages.push(json!({"stage": stage, "cases": stage_evals, "wall_s": t0.elapsed().as_secs_f64()}));
}

/// replay one case through the plain check function (no proptest involved)
pub fn replay_case<C: Case>(
    v: &Value,
    check: &(dyn Fn(&C, &mut Stats) -> CheckResult + Sync),
) -> Result<CheckResult, String> {
    let c = C::from_json(&v["case"]).ok_or_else(|| "replay file: case does not decode".to_string())?;
    let _g = set_current(&c);
    let mut st = Stats::new();
    Ok(match guarded("replay", || check(&c, &mut st)) {
        Ok(r) => r,
        Err(f) => Err(f),
    })
}

pub fn load_known(verif: &Path) -> Vec<Known> {
    let mut v = Vec::new();
    if let Ok(text) = std::fs::read_to_string(verif.join("KNOWN_FINDINGS.txt")) {
        for line in text.lines() {
            let line = line.trim();
            if let Some(rest) = line.strip_prefix("known:") {
                let mut property = String::new();
                let mut key = String::new();
                let mut replay = String::new();
                let mut what = Vec::new();
                for tok in rest.split_whitespace() {
                    if let Some(x) = tok.strip_prefix("property=") {
                        property = x.to_string();
                    } else if let Some(x) = tok.strip_prefix("key=") {
                        key = x.to_string();
                    } else if let Some(x) = tok.strip_prefix("replay=") {
                        replay = x.to_string();
                    } else {
                        what.push(tok);
                    }
                }
                v.push(Known { property, key, replay, what: what.join(" ") });
            }
        }
    }
    v
}

pub fn list_replays(verif: &Path, id: &str) -> Vec<PathBuf> {
    let mut v = Vec::new();
    if let Ok(rd) = std::fs::read_dir(verif.join("replays").join(id)) {
        for e in rd.flatten() {
            let p = e.path();
            if p.extension().map(|x| x == "json").unwrap_or(false) {
                v.push(p);
            }
        }
    }
    v.sort();
    v
}

#[allow(clippy::too_many_arguments)]
pub fn write_evidence(
    ctx: &Ctx,
    out: &Outcome,
    rule: &str,
    assumptions: &[&str],
    wall_s: f64,
    extra: Map<String, Value>,
) {
    let mut samples: Vec<Value> = out.stats.nontrivial_samples.clone();
    for s in &out.stats.samples {
        if samples.len() < 2 * MAX_SAMPLES {
            samples.push(s.clone());
        }
    }
    let samples: Vec<Value> = samples.into_iter().map(trim_sample).collect();
    let mut cov = Map::new();
    cov.insert("evaluations".into(), json!(out.stats.evaluations));
    cov.insert("distinct_nontrivial".into(), json!(out.stats.nontrivial.len()));
    cov.insert("rule".into(), json!(rule));
    cov.insert("samples".into(), Value::Array(samples));
    cov.insert("classes".into(), json!(out.stats.classes));
    cov.insert("excluded".into(), json!(out.stats.excluded));
    cov.insert("stages".into(), Value::Array(out.stages.clone()));
    cov.insert("exhaustive".into(), json!(false));
    for (k, v) in extra {
        cov.insert(k, v);
    }
    let ev = json!({
        "property_id": ctx.id,
        "tier": ctx.tier.name(),
        "seed": ctx.seed,
        "level": "exploration",
        "coverage": Value::Object(cov),
        "assumptions": assumptions,
        "wall_s": wall_s,
        "violations": out.violations.len(),
        "known_findings_reported": out.known_hits,
        "inconclusive": out.inconclusive,
    });
    let dir = ctx.verif.join("evidence");
    let _ = std::fs::create_dir_all(&dir);
    let _ = std::fs::write(dir.join(format!("{}.json", ctx.id)), serde_json::to_string_pretty(&ev).unwrap());
}

/// helper for strategies: monotone index mapping (shrinks towards index 0)
pub fn pick_idx(raw: u16, len: usize) -> usize {
    ((raw as usize) * len) >> 16
}

pub fn boxed<S: Strategy + 'static>(s: S) -> BoxedStrategy<S::Value> {
    s.boxed()
}

/// Coverage-guided campaign (thorough tier): builds the libFuzzer target and runs `jobs` independent processes,
/// each on its own copy of the seed corpus with its own seed. A crash artifact becomes a violation whose replay file is the artifact.
pub fn fuzz_stage(ctx: &Ctx, out: &mut Outcome, target: &str, runs_per_job: u64, jobs: usize, max_len: usize) {
    if out.failed() {
        return;
    }
    let t0 = Instant::now();
    let fuzz_dir = ctx.verif.join("fuzz");
    let target_dir = ctx.verif.join("target/fuzz");
    let build = std::process::Command::new("cargo")
        .args(["+nightly", "fuzz", "build", "--fuzz-dir"])
        .arg(&fuzz_dir)
        .arg("--target-dir")
        .arg(&target_dir)
        .args(["-s", "none", target])
        .env("CARGO_NET_OFFLINE", "true")
        .output();
    match build {
        Ok(o) if o.status.success() => {}
        Ok(o) => {
            out.inconclusive.push(format!("fuzz build of {} failed: {}", target, String::from_utf8_lossy(&o.stderr).lines().filter(|l| l.starts_with("error")).take(3).collect::<Vec<_>>().join(" | ")));
            return;
        }
        Err(e) => {
            out.inconclusive.push(format!("cannot run cargo fuzz: {}", e));
            return;
        }
    }
    let bin = target_dir.join("x86_64-unknown-linux-gnu/release").join(target);
    if !bin.exists() {
        out.inconclusive.push(format!("fuzz binary {} not found after build", bin.display()));
        return;
    }
    let results: Vec<(i32, Option<PathBuf>, String)> = std::thread::scope(|s| {
        let hs: Vec<_> = (0..jobs)
            .map(|j| {
                let bin = &bin;
                s.spawn(move || {
                    let corpus = ctx.scratch.join(format!("fuzz-{}-corpus-{}", target, j));
                    let arts = ctx.scratch.join(format!("fuzz-{}-art-{}", target, j));
                    let _ = std::fs::create_dir_all(&corpus);
                    let _ = std::fs::create_dir_all(&arts);
                    if let Ok(rd) = std::fs::read_dir(ctx.verif.join("corpus").join(target)) {
                        for e in rd.flatten() {
                            let _ = std::fs::copy(e.path(), corpus.join(e.file_name()));
                        }
                    }
                    let o = std::process::Command::new(bin)
                        .arg(&corpus)
                        .arg(format!("-runs={}", runs_per_job))
                        .arg(format!("-seed={}", (ctx.seed.wrapping_mul(1000003).wrapping_add(j as u64 + 1)) & 0x7fff_ffff))
                        .arg(format!("-max_len={}", max_len))
                        .arg("-len_control=0")
                        .arg("-timeout=60")
                        .arg(format!("-artifact_prefix={}/", arts.display()))
                        .stdin(std::process::Stdio::null())
                        .output();
                    match o {
                        Ok(o) => {
                            let code = o.status.code().unwrap_or(-1);
                            let art = std::fs::read_dir(&arts).ok().and_then(|rd| rd.flatten().map(|e| e.path()).next());
                            let log = String::from_utf8_lossy(&o.stderr).into_owned();
                            (code, art, log)
                        }
                        Err(e) => (-2, None, e.to_string()),
                    }
                })
            })
            .collect();
        hs.into_iter().map(|h| h.join().unwrap()).collect()
    });
    let mut total = 0u64;
    for (code, art, log) in results {
        if code == 0 {
            total += runs_per_job;
            continue;
        }
        if code == -2 {
            out.inconclusive.push(format!("cannot start fuzz binary: {}", log));
            continue;
        }
        let msg = log.lines().find(|l| l.contains("FUZZ-VIOLATION") || l.contains("panicked at")).unwrap_or("fuzz target crashed").to_string();
        let kind = if log.contains("timeout after") || log.contains("ALARM") { "timeout" } else { "crash" };
        match art {
            Some(a) if kind == "crash" => {
                let d = ctx.verif.join("failures").join(&ctx.id);
                let _ = std::fs::create_dir_all(&d);
                let dest = d.join(format!("fuzz-{}-{}", target, a.file_name().map(|f| f.to_string_lossy().into_owned()).unwrap_or_default()));
                let _ = std::fs::copy(&a, &dest);
                if out.violations.is_empty() {
                    out.violations.push((Failure::new(format!("fuzz:{}", target), msg), dest));
                }
            }
            _ => out.inconclusive.push(format!("fuzz job of {} ended with status {} ({}): {}", target, code, kind, msg)),
        }
    }
    out.stats.evaluations += total;
    out.stats.class_n(&format!("libFuzzer executions ({})", target), total);
    out.stages.push(json!({"stage": format!("libfuzzer:{}", target), "cases": total, "jobs": jobs, "wall_s": t0.elapsed().as_secs_f64()}));
}

/// keep evidence files readable: long strings and long arrays inside a sample are cut (with a note of what was cut)
fn trim_sample(v: Value) -> Value {
    match v {
        Value::String(t) => {
            let n = t.chars().count();
            if n > 400 {
                Value::String(format!("{}…(+{} characters)", t.chars().take(400).collect::<String>(), n - 400))
            } else {
                Value::String(t)
            }
        }
        Value::Array(a) => {
            let n = a.len();
            let mut out: Vec<Value> = a.into_iter().take(24).map(trim_sample).collect();
            if n > 24 {
                out.push(Value::String(format!("…(+{} items)", n - 24)));
            }
            Value::Array(out)
        }
        Value::Object(m) => Value::Object(m.into_iter().map(|(k, x)| (k, trim_sample(x))).collect()),
        other => other,
    }
}
