use hv::engine::*;
use hv::props;
use serde_json::{Map, Value};
use std::path::PathBuf;
use std::time::Instant;

fn usage() -> ! {
    eprintln!("usage: hv check <ID> <quick|thorough> | hv replay <ID> <file> | hv selftest | hv child-optimize <file> <level>");
    std::process::exit(2);
}

fn make_ctx(id: &str, tier: Tier, strict: bool) -> Ctx {
    let verif = PathBuf::from(std::env::var("HV_VERIF").unwrap_or_else(|_| "/verif".to_string()));
    let seed = std::env::var("VERIF_SEED").ok().and_then(|s| s.trim().parse::<i128>().ok()).map(|v| v as u64).unwrap_or(0);
    let workers = std::env::var("HV_WORKERS")
        .ok()
        .and_then(|s| s.parse().ok())
        .unwrap_or_else(|| std::thread::available_parallelism().map(|n| n.get()).unwrap_or(4).min(16));
    let mut scratch = PathBuf::from(format!("/dev/shm/hv-{}", std::process::id()));
    if std::fs::create_dir_all(&scratch).is_err() || std::fs::write(scratch.join(".probe"), b"x").is_err() {
        // no usable tmpfs: fall back to the (git-ignored) build directory of /verif
        scratch = verif.join(format!("target/scratch/hv-{}", std::process::id()));
        let _ = std::fs::create_dir_all(&scratch);
    }
    Ctx { id: id.to_string(), tier, seed, workers, known: load_known(&verif), verif, scratch, strict }
}

fn cleanup(ctx: &Ctx) {
    let _ = std::fs::remove_dir_all(&ctx.scratch);
}

fn main() {
    let args: Vec<String> = std::env::args().collect();
    if args.len() < 2 {
        usage();
    }
    match args[1].as_str() {
        "selftest" => {
            let ctx = make_ctx("SELFTEST", Tier::Quick, false);
            let r = props::selftest(&ctx, true);
            cleanup(&ctx);
            mark_finished();
            match r {
                Ok(n) => {
                    println!("selftest ok: {} checks", n);
                    std::process::exit(0)
                }
                Err(e) => {
                    println!("INCONCLUSIVE selftest failed: {}", e);
                    std::process::exit(2)
                }
            }
        }
        "child-optimize" => {
            if args.len() != 4 {
                usage();
            }
            props::child::child_optimize(&args[2], &args[3]);
        }
        "child-emit" => {
            if args.len() != 5 {
                usage();
            }
            props::child::child_emit(&args[2], &args[3], &args[4]);
        }
        "child-run" => {
            if args.len() != 5 {
                usage();
            }
            props::child::child_run(&args[2], &args[3], &args[4]);
        }
        "replay" => {
            if args.len() != 4 {
                usage();
            }
            detach_stdin();
            let id = args[2].clone();
            let ctx = make_ctx(&id, Tier::Thorough, true);
            install_traps(&id, &ctx.verif.join("failures"));
            {
                let limit = std::env::var("HV_CASE_TIMEOUT").ok().and_then(|s| s.parse().ok()).unwrap_or(900u64);
                let arithmetic = matches!(id.as_str(), "C05" | "C06" | "C07" | "C09");
                start_hang_watchdog(&id, &ctx.verif.join("failures"), std::time::Duration::from_secs(limit), arithmetic);
            }
            // raw libFuzzer artifact (not JSON): decode the bytes exactly as the fuzz target does
            let raw = std::fs::read(&args[3]).unwrap_or_default();
            let is_json = serde_json::from_slice::<Value>(&raw).map(|v| v.get("case").is_some()).unwrap_or(false);
            if !is_json && std::path::Path::new(&args[3]).file_name().map(|f| f.to_string_lossy().starts_with("fuzz-")).unwrap_or(false) {
                let code = match hv::fuzzdecode::target_for(&id) {
                    None => {
                        println!("INCONCLUSIVE property {} has no fuzz target", id);
                        2
                    }
                    Some(t) => match guarded("fuzz-replay", || hv::fuzzdecode::run(t, &raw)) {
                        Ok(Ok(())) => {
                            println!("replay passed: property={} file={}", id, args[3]);
                            0
                        }
                        Ok(Err(f)) | Err(f) => {
                            println!("replay failed [{}]: {}", f.sig, f.msg);
                            println!("VIOLATION property={} replay={}", id, args[3]);
                            1
                        }
                    },
                };
                cleanup(&ctx);
                mark_finished();
                std::process::exit(code);
            }
            let text = match std::fs::read_to_string(&args[3]) {
                Ok(t) => t,
                Err(e) => {
                    println!("INCONCLUSIVE cannot read replay file: {}", e);
                    mark_finished();
                    std::process::exit(2);
                }
            };
            let v: Value = match serde_json::from_str(&text) {
                Ok(v) => v,
                Err(e) => {
                    println!("INCONCLUSIVE replay file is not JSON: {}", e);
                    mark_finished();
                    std::process::exit(2);
                }
            };
            let _ = &v;
            let code = match props::prepare(&ctx).and_then(|_| props::replay(&ctx, &v)) {
                Err(e) => {
                    println!("INCONCLUSIVE {}", e);
                    2
                }
                Ok(Ok(())) => {
                    println!("replay passed: property={} file={}", id, args[3]);
                    0
                }
                Ok(Err(f)) => {
                    println!("replay failed [{}]: {}", f.sig, f.msg);
                    println!("VIOLATION property={} replay={}", id, args[3]);
                    1
                }
            };
            cleanup(&ctx);
            mark_finished();
            std::process::exit(code);
        }
        "check" => {
            if args.len() != 4 {
                usage();
            }
            detach_stdin();
            let id = args[2].clone();
            let tier = match args[3].as_str() {
                "quick" => Tier::Quick,
                "thorough" => Tier::Thorough,
                _ => usage(),
            };
            let ctx = make_ctx(&id, tier, false);
            install_traps(&id, &ctx.verif.join("failures"));
            // C05/C06/C07/C09: bounded in-process arithmetic, microseconds per case - not returning IS the failure;
            // everywhere else a stuck case is harness trouble (exit 2)
            let arithmetic = matches!(id.as_str(), "C05" | "C06" | "C07" | "C09");
            // quick-tier arithmetic operands stay below a few dozen limbs (a case costs well under a millisecond), so three
            // minutes for ONE case is already five orders of magnitude of slack; elsewhere cases spawn processes and compilers
            let default_limit = if arithmetic && matches!(tier, Tier::Quick) { 180u64 } else { 900u64 };
            let limit = std::env::var("HV_CASE_TIMEOUT").ok().and_then(|s| s.parse().ok()).unwrap_or(default_limit);
            start_hang_watchdog(&id, &ctx.verif.join("failures"), std::time::Duration::from_secs(limit), arithmetic);
            let code = run_check(&ctx);
            cleanup(&ctx);
            mark_finished();
            std::process::exit(code);
        }
        _ => usage(),
    }
}

/// the code under test is wired to the process's real stdin in places (optimize): make sure a stray read
/// can never block the harness or eat somebody's input
fn detach_stdin() {
    unsafe {
        let fd = libc::open(b"/dev/null\0".as_ptr() as *const libc::c_char, libc::O_RDONLY);
        if fd >= 0 {
            libc::dup2(fd, 0);
            if fd != 0 {
                libc::close(fd);
            }
        }
    }
}

fn run_check(ctx: &Ctx) -> i32 {
    let t0 = Instant::now();
    let info = match props::info(&ctx.id) {
        Some(i) => i,
        None => {
            println!("INCONCLUSIVE unknown property {}", ctx.id);
            return 2;
        }
    };
    println!("== {} {} seed={} workers={}", ctx.id, ctx.tier.name(), ctx.seed, ctx.workers);
    // 0. reference self-tests (trusted base)
    let full = ctx.tier == Tier::Thorough && matches!(ctx.id.as_str(), "C05" | "C06" | "C07" | "C09");
    if let Err(e) = props::selftest(ctx, full) {
        println!("INCONCLUSIVE reference self-test failed: {}", e);
        return 2;
    }
    if let Err(e) = props::prepare(ctx) {
        println!("INCONCLUSIVE preparation failed: {}", e);
        return 2;
    }
    let mut out = Outcome::new();
    // 1. regression tier: known findings first, then every committed replay
    let known: Vec<Known> = ctx.known.iter().filter(|k| k.property == ctx.id).cloned().collect();
    let mut known_files = Vec::new();
    for k in &known {
        let p = ctx.verif.join(&k.replay);
        known_files.push(p.clone());
        match std::fs::read_to_string(&p).ok().and_then(|t| serde_json::from_str::<Value>(&t).ok()) {
            None => {
                println!("INCONCLUSIVE known finding {} has no readable replay file {}", k.key, p.display());
                return 2;
            }
            Some(v) => match props::replay(ctx, &v) {
                Err(e) => {
                    println!("INCONCLUSIVE known finding replay: {}", e);
                    return 2;
                }
                Ok(Err(f)) => {
                    if f.sig == k.key {
                        println!("KNOWN-FINDING: property={} {}", ctx.id, k.what);
                        out.known_hits.push(k.key.clone());
                    } else {
                        println!("replay of known finding failed differently [{}]: {}", f.sig, f.msg);
                        println!("VIOLATION property={} replay={}", ctx.id, p.display());
                        out.violations.push((f, p.clone()));
                    }
                }
                Ok(Ok(())) => {
                    println!("note: listed finding {} no longer reproduces", k.key);
                }
            },
        }
    }
    let mut regress = 0;
    for p in list_replays(&ctx.verif, &ctx.id) {
        if known_files.contains(&p) {
            continue;
        }
        let v = match std::fs::read_to_string(&p).ok().and_then(|t| serde_json::from_str::<Value>(&t).ok()) {
            Some(v) => v,
            None => {
                println!("INCONCLUSIVE unreadable replay file {}", p.display());
                return 2;
            }
        };
        match props::replay(ctx, &v) {
            Err(e) => {
                println!("INCONCLUSIVE replay {}: {}", p.display(), e);
                return 2;
            }
            Ok(Ok(())) => regress += 1,
            Ok(Err(f)) => {
                println!("regression replay failed [{}]: {}", f.sig, f.msg);
                println!("VIOLATION property={} replay={}", ctx.id, p.display());
                out.violations.push((f, p));
            }
        }
    }
    println!("regression tier: {} replays passed", regress);
    // 2. generated-input search
    if !out.failed() {
        (info.run)(ctx, &mut out);
        if ctx.tier == Tier::Thorough {
            if let Some(target) = hv::fuzzdecode::target_for(&ctx.id) {
                let (runs, max_len) = match target {
                    "fz_c04" => (1_000_000, 400),
                    "fz_c01" => (30_000, 128),
                    _ => (25_000, 96),
                };
                fuzz_stage(ctx, &mut out, target, runs, ctx.workers, max_len);
            }
        }
        for (f, p) in &out.violations {
            println!("violation [{}]: {}", f.sig, f.msg);
            println!("VIOLATION property={} replay={}", ctx.id, p.display());
        }
    }
    // 3. gates
    let gate_problems = if out.failed() { Vec::new() } else { (info.gates)(&out, ctx.tier) };
    let wall = t0.elapsed().as_secs_f64();
    let mut extra = Map::new();
    extra.insert("regression_replays_passed".into(), Value::from(regress));
    extra.insert("gate_problems".into(), Value::from(gate_problems.clone()));
    write_evidence(ctx, &out, info.rule, info.assumptions, wall, extra);
    println!(
        "{} {}: evaluations={} distinct_nontrivial={} violations={} wall={:.1}s",
        ctx.id,
        ctx.tier.name(),
        out.stats.evaluations,
        out.stats.nontrivial.len(),
        out.violations.len(),
        wall
    );
    if out.failed() {
        return 1;
    }
    if !out.inconclusive.is_empty() {
        for i in &out.inconclusive {
            println!("INCONCLUSIVE {}", i);
        }
        return 2;
    }
    if !gate_problems.is_empty() {
        for g in &gate_problems {
            println!("INCONCLUSIVE non-vacuity gate: {}", g);
        }
        return 2;
    }
    println!("PASS property={}", ctx.id);
    0
}
