//! Reference parser (two-phase: segmentation, then per-segment analysis), area trees,
//! command records and the canonical renderer.  Written from the grammar as stated in
//! the property texts and the documentation comments; deliberately structured
//! differently from the one-pass cursor machine in src/core/parse.rs.

use hyeong::core::area::Area;
use serde_json::{json, Value};

pub const HEARTS: [char; 12] = ['♥', '❤', '💕', '💖', '💗', '💘', '💙', '💚', '💛', '💜', '💝', '♡'];
pub const ONE_SYLLABLE: [char; 6] = ['형', '항', '핫', '흣', '흡', '흑'];
pub const STARTS: [char; 3] = ['혀', '하', '흐'];
pub const ENDS: [char; 6] = ['엉', '앙', '앗', '읏', '읍', '윽'];
pub const FILLERS: [char; 3] = ['어', '아', '으'];
pub const DOTS3: [char; 3] = ['…', '⋯', '⋮'];

pub fn heart_char(t: u8) -> char {
    HEARTS[(t - 2) as usize]
}
pub fn heart_index(c: char) -> Option<u8> {
    HEARTS.iter().position(|&h| h == c).map(|i| i as u8 + 2)
}
pub fn is_hangul_syllable(c: char) -> bool {
    ('\u{AC00}'..='\u{D7A3}').contains(&c)
}
/// class of an end syllable: 0 = 엉, 1 = 앙/앗, 2 = 읏/읍/윽
pub fn end_class(c: char) -> Option<usize> {
    match c {
        '엉' => Some(0),
        '앙' | '앗' => Some(1),
        '읏' | '읍' | '윽' => Some(2),
        _ => None,
    }
}
pub fn start_class(c: char) -> Option<usize> {
    STARTS.iter().position(|&s| s == c)
}
/// kind of the command that a head of class `class` ending in `c` denotes
fn kind_of_end(class: usize, c: char) -> Option<u8> {
    match (class, c) {
        (0, '엉') => Some(0),
        (1, '앙') => Some(1),
        (1, '앗') => Some(2),
        (2, '읏') => Some(3),
        (2, '읍') => Some(4),
        (2, '윽') => Some(5),
        _ => None,
    }
}
pub fn dot_value(c: char) -> Option<usize> {
    match c {
        '.' => Some(1),
        '…' | '⋯' | '⋮' => Some(3),
        _ => None,
    }
}

#[derive(Clone, Debug, PartialEq, Eq, Hash)]
pub enum RArea {
    Nil,
    Heart(u8),
    Q(Box<RArea>, Box<RArea>),
    B(Box<RArea>, Box<RArea>),
}

impl RArea {
    pub fn to_impl(&self) -> Area {
        // iterative for the right spine (area chains can be thousands of operators long)
        match self {
            RArea::Nil => Area::Nil,
            RArea::Heart(t) => Area::new(*t),
            RArea::Q(l, r) => Area::Val { type_: 0, left: Box::new(l.to_impl()), right: Box::new(r.to_impl()) },
            RArea::B(l, r) => Area::Val { type_: 1, left: Box::new(l.to_impl()), right: Box::new(r.to_impl()) },
        }
    }
    pub fn from_impl(a: &Area) -> RArea {
        match a {
            Area::Nil => RArea::Nil,
            Area::Val { type_, left, right } => match *type_ {
                0 => RArea::Q(Box::new(RArea::from_impl(left)), Box::new(RArea::from_impl(right))),
                1 => RArea::B(Box::new(RArea::from_impl(left)), Box::new(RArea::from_impl(right))),
                t => RArea::Heart(t),
            },
        }
    }
    /// prefix form as the implementation's Debug prints it
    pub fn prefix(&self) -> String {
        let mut s = String::new();
        self.prefix_into(&mut s);
        s
    }
    fn prefix_into(&self, s: &mut String) {
        match self {
            RArea::Nil => s.push('_'),
            RArea::Heart(t) => s.push(heart_char(*t)),
            RArea::Q(l, r) => {
                s.push('?');
                l.prefix_into(s);
                r.prefix_into(s);
            }
            RArea::B(l, r) => {
                s.push('!');
                l.prefix_into(s);
                r.prefix_into(s);
            }
        }
    }
    /// bracketed infix form as the implementation's Display prints it
    pub fn infix(&self) -> String {
        let mut s = String::new();
        self.infix_into(&mut s);
        s
    }
    fn infix_into(&self, s: &mut String) {
        match self {
            RArea::Nil => s.push('_'),
            RArea::Heart(t) => s.push(heart_char(*t)),
            RArea::Q(l, r) | RArea::B(l, r) => {
                s.push('[');
                l.infix_into(s);
                s.push(']');
                s.push(if matches!(self, RArea::Q(..)) { '?' } else { '!' });
                s.push('[');
                r.infix_into(s);
                s.push(']');
            }
        }
    }
    /// inverse of the prefix form
    pub fn parse_prefix(s: &str) -> Option<RArea> {
        let cs: Vec<char> = s.chars().collect();
        let mut pos = 0;
        let a = Self::parse_prefix_at(&cs, &mut pos)?;
        if pos == cs.len() {
            Some(a)
        } else {
            None
        }
    }
    fn parse_prefix_at(cs: &[char], pos: &mut usize) -> Option<RArea> {
        let c = *cs.get(*pos)?;
        *pos += 1;
        match c {
            '_' => Some(RArea::Nil),
            '?' => {
                let l = Self::parse_prefix_at(cs, pos)?;
                let r = Self::parse_prefix_at(cs, pos)?;
                Some(RArea::Q(Box::new(l), Box::new(r)))
            }
            '!' => {
                let l = Self::parse_prefix_at(cs, pos)?;
                let r = Self::parse_prefix_at(cs, pos)?;
                Some(RArea::B(Box::new(l), Box::new(r)))
            }
            h => heart_index(h).map(RArea::Heart),
        }
    }
    /// inverse of the bracketed infix form
    pub fn parse_infix(s: &str) -> Option<RArea> {
        let cs: Vec<char> = s.chars().collect();
        let mut pos = 0;
        let a = Self::parse_infix_at(&cs, &mut pos)?;
        if pos == cs.len() {
            Some(a)
        } else {
            None
        }
    }
    fn parse_infix_at(cs: &[char], pos: &mut usize) -> Option<RArea> {
        let c = *cs.get(*pos)?;
        match c {
            '_' => {
                *pos += 1;
                Some(RArea::Nil)
            }
            '[' => {
                *pos += 1;
                let l = Self::parse_infix_at(cs, pos)?;
                if *cs.get(*pos)? != ']' {
                    return None;
                }
                *pos += 1;
                let op = *cs.get(*pos)?;
                *pos += 1;
                if *cs.get(*pos)? != '[' {
                    return None;
                }
                *pos += 1;
                let r = Self::parse_infix_at(cs, pos)?;
                if *cs.get(*pos)? != ']' {
                    return None;
                }
                *pos += 1;
                match op {
                    '?' => Some(RArea::Q(Box::new(l), Box::new(r))),
                    '!' => Some(RArea::B(Box::new(l), Box::new(r))),
                    _ => None,
                }
            }
            h => {
                *pos += 1;
                heart_index(h).map(RArea::Heart)
            }
        }
    }
    pub fn operators(&self) -> usize {
        match self {
            RArea::Nil | RArea::Heart(_) => 0,
            RArea::Q(l, r) | RArea::B(l, r) => 1 + l.operators() + r.operators(),
        }
    }
    pub fn is_nil(&self) -> bool {
        matches!(self, RArea::Nil)
    }
    pub fn has_q(&self) -> bool {
        match self {
            RArea::Q(..) => true,
            RArea::B(l, r) => l.has_q() || r.has_q(),
            _ => false,
        }
    }
    pub fn has_b(&self) -> bool {
        match self {
            RArea::B(..) => true,
            RArea::Q(l, r) => l.has_b() || r.has_b(),
            _ => false,
        }
    }
}

/// grammar-shaped area: `?`-separated segments, each a list of `!`-separated slots, each an optional heart.
/// `[[None]]` is the empty area.
pub type AreaShape = Vec<Vec<Option<u8>>>;

pub fn shape_to_area(shape: &AreaShape) -> RArea {
    fn part(slots: &[Option<u8>]) -> RArea {
        let slot = |s: &Option<u8>| match s {
            None => RArea::Nil,
            Some(h) => RArea::Heart(*h),
        };
        let mut acc = slot(&slots[slots.len() - 1]);
        for s in slots[..slots.len() - 1].iter().rev() {
            acc = RArea::B(Box::new(slot(s)), Box::new(acc));
        }
        acc
    }
    let mut acc = part(&shape[shape.len() - 1]);
    for p in shape[..shape.len() - 1].iter().rev() {
        acc = RArea::Q(Box::new(part(p)), Box::new(acc));
    }
    acc
}

pub fn shape_is_empty(shape: &AreaShape) -> bool {
    shape.len() == 1 && shape[0].len() == 1 && shape[0][0].is_none()
}

pub fn shape_text(shape: &AreaShape) -> String {
    let mut s = String::new();
    for (i, p) in shape.iter().enumerate() {
        if i > 0 {
            s.push('?');
        }
        for (j, slot) in p.iter().enumerate() {
            if j > 0 {
                s.push('!');
            }
            if let Some(h) = slot {
                s.push(heart_char(*h));
            }
        }
    }
    s
}

/// a command as generated
#[derive(Clone, Debug, PartialEq, Eq, Hash)]
pub struct RCmd {
    pub kind: u8,
    pub h: usize,
    pub d: usize,
    pub area: AreaShape,
}

impl RCmd {
    pub fn new(kind: u8, h: usize, d: usize) -> RCmd {
        RCmd { kind, h, d, area: vec![vec![None]] }
    }
    pub fn with_area(kind: u8, h: usize, d: usize, area: AreaShape) -> RCmd {
        RCmd { kind, h, d, area }
    }
    pub fn tree(&self) -> RArea {
        shape_to_area(&self.area)
    }
    pub fn has_area(&self) -> bool {
        !shape_is_empty(&self.area)
    }
    pub fn to_json(&self) -> Value {
        json!({"k": self.kind, "h": self.h, "d": self.d, "a": shape_text(&self.area)})
    }
    pub fn from_json(v: &Value) -> Option<RCmd> {
        let kind = v.get("k")?.as_u64()? as u8;
        let h = v.get("h")?.as_u64()? as usize;
        let d = v.get("d")?.as_u64()? as usize;
        let a = v.get("a")?.as_str()?;
        if kind > 5 || h == 0 {
            return None;
        }
        Some(RCmd { kind, h, d, area: parse_shape(a)? })
    }
}

/// inverse of shape_text (input contains only `?`, `!` and at most one heart per slot)
pub fn parse_shape(s: &str) -> Option<AreaShape> {
    let mut shape: AreaShape = vec![vec![None]];
    for c in s.chars() {
        match c {
            '?' => shape.push(vec![None]),
            '!' => shape.last_mut().unwrap().push(None),
            h => {
                let slot = shape.last_mut().unwrap().last_mut().unwrap();
                if slot.is_some() {
                    return None;
                }
                *slot = Some(heart_index(h)?);
            }
        }
    }
    Some(shape)
}

pub fn head_text(kind: u8, h: usize) -> String {
    let k = kind as usize;
    if h == 1 {
        return ONE_SYLLABLE[k].to_string();
    }
    let class = [0, 1, 1, 2, 2, 2][k];
    let mut s = String::new();
    s.push(STARTS[class]);
    for _ in 0..h - 2 {
        s.push(FILLERS[class]);
    }
    s.push(ENDS[k]);
    s
}

/// canonical text of one command: head, `.` * d, area
pub fn cmd_text(c: &RCmd) -> String {
    let mut s = head_text(c.kind, c.h);
    for _ in 0..c.d {
        s.push('.');
    }
    s.push_str(&shape_text(&c.area));
    s
}

/// canonical program text: commands separated by one space
pub fn render_canonical(cmds: &[RCmd]) -> String {
    cmds.iter().map(cmd_text).collect::<Vec<_>>().join(" ")
}

/// a command as parsed by the reference parser
#[derive(Clone, Debug, PartialEq, Eq)]
pub struct PCmd {
    pub kind: u8,
    pub h: usize,
    pub d: usize,
    pub area: RArea,
    pub loc: (usize, usize),
    pub raw: String,
}

struct Segment {
    kind: u8,
    h: usize,
    loc: (usize, usize),
    head_raw: String,
    tail: Vec<char>, // non-whitespace characters after the head, up to the next command
}

/// the reference parser
pub fn ref_parse(text: &str) -> Vec<PCmd> {
    let chars: Vec<char> = text.chars().collect();
    // where does the last end syllable of each class occur?
    let mut last_end: [Option<usize>; 3] = [None; 3];
    for (i, &c) in chars.iter().enumerate() {
        if let Some(cl) = end_class(c) {
            last_end[cl] = Some(i);
        }
    }
    // phase 1: segmentation
    let mut segs: Vec<Segment> = Vec::new();
    let mut line = 1usize;
    let mut col = 0usize;
    let mut in_head: Option<usize> = None; // class of the open multi-syllable head
    for (i, &c) in chars.iter().enumerate() {
        let here = (line, col);
        if c == '\n' {
            line += 1;
            col = 0;
        } else {
            col += 1;
        }
        if c.is_whitespace() {
            continue;
        }
        match in_head {
            Some(class) => {
                if is_hangul_syllable(c) {
                    let seg = segs.last_mut().unwrap();
                    seg.h += 1;
                    seg.head_raw.push(c);
                    if let Some(k) = kind_of_end(class, c) {
                        seg.kind = k;
                        in_head = None;
                    }
                }
            }
            None => {
                if let Some(k) = ONE_SYLLABLE.iter().position(|&o| o == c) {
                    segs.push(Segment { kind: k as u8, h: 1, loc: here, head_raw: c.to_string(), tail: Vec::new() });
                } else if let Some(class) = start_class(c).filter(|&cl| last_end[cl].map(|p| p > i).unwrap_or(false)) {
                    segs.push(Segment { kind: 255, h: 1, loc: here, head_raw: c.to_string(), tail: Vec::new() });
                    in_head = Some(class);
                } else if let Some(seg) = segs.last_mut() {
                    seg.tail.push(c);
                }
                // anything before the first command has no effect
            }
        }
    }
    // phase 2: per segment
    segs.into_iter()
        .map(|seg| {
            let mut d = 0usize;
            let mut raw = seg.head_raw.clone();
            let mut tokens: Vec<char> = Vec::new();
            for &c in &seg.tail {
                if let Some(v) = dot_value(c) {
                    if tokens.is_empty() {
                        d += v;
                        raw.push(c);
                    }
                } else if c == '?' || c == '!' || heart_index(c).is_some() {
                    tokens.push(c);
                    raw.push(c);
                }
            }
            let area = if tokens.is_empty() {
                RArea::Nil
            } else {
                // `?` binds loosest, `!` next, both nest to the right; first heart of a slot counts
                let token_str: String = tokens.iter().collect();
                let shape: AreaShape = token_str
                    .split('?')
                    .map(|part| part.split('!').map(|slot| slot.chars().next().and_then(heart_index)).collect())
                    .collect();
                shape_to_area(&shape)
            };
            PCmd { kind: seg.kind, h: seg.h, d, area, loc: seg.loc, raw }
        })
        .collect()
}

/// self-test on the repository's own documented examples
pub fn selftest() -> Result<usize, String> {
    let cases: Vec<(&str, Vec<&str>)> = vec![
        ("형...?💖?", vec!["0 1 3 ?_?💖_"]),
        ("혀엉", vec!["0 2 0 _"]),
        ("형", vec!["0 1 0 _"]),
        ("하아아아앗. .. . ♥", vec!["2 5 4 ♥"]),
        ("흐읏...♡!", vec!["3 2 3 !♡_"]),
        ("형.💙?💕?♥!💝!!💘", vec!["0 1 1 ?💙?💕!♥!💝!_💘"]),
        ("혀일이삼사오육앙엉", vec!["0 9 0 _"]),
        ("하흐읏", vec!["3 2 0 _"]),
        ("형 … ⋯ ⋮", vec!["0 1 9 _"]),
    ];
    let mut n = 0;
    for (text, want) in cases {
        let got: Vec<String> = ref_parse(text).iter().map(|c| format!("{} {} {} {}", c.kind, c.h, c.d, c.area.prefix())).collect();
        if got != want {
            return Err(format!("reference parser self-test: `{}` gave {:?}, want {:?}", text, got, want));
        }
        n += 1;
    }
    // round trips of the two tree notations
    for s in ["_", "♥", "?_?💖_", "!♡_", "?💙?💕!♥!💝!_💘"] {
        let a = RArea::parse_prefix(s).ok_or_else(|| format!("parse_prefix `{}`", s))?;
        if a.prefix() != s || RArea::parse_infix(&a.infix()) != Some(a.clone()) {
            return Err(format!("area notation round trip `{}`", s));
        }
        n += 1;
    }
    Ok(n)
}
