//! Reference interpreter: an executable definition of the six commands, the area
//! branch/jump rules, the I/O stacks 0/1/2 and the NaN rules, over exact reference
//! rationals.  Small-step; written from the language description in the property
//! statements, not from src/core/execute.rs.

use crate::refnum::{RefInt, RefRat};
use crate::refparse::{RArea, RCmd};
use std::cmp::Ordering;
use std::collections::{BTreeMap, HashMap, VecDeque};

#[derive(Clone, Debug)]
pub struct MCmd {
    pub kind: u8,
    pub h: usize,
    pub d: usize,
    pub area: RArea,
}

impl MCmd {
    pub fn from_rcmd(c: &RCmd) -> MCmd {
        MCmd { kind: c.kind, h: c.h, d: c.d, area: c.tree() }
    }
}

/// how a step (or a run) ended
#[derive(Clone, Debug, PartialEq, Eq)]
pub enum Stop {
    /// the program asked to exit with this status (pop from stack 1 / 2)
    Exit(i32),
    /// a non-negative value that is not a Unicode scalar value was written to stack 1/2
    Encoding(u64),
    /// a value >= 2^32 was written to stack 1/2: declared unspecified, the case is cut here
    Unspecified,
    /// a value exceeded the size cap of the harness (bulk cases only)
    TooBig,
    /// the program read an input line that is not valid UTF-8 (C13 only; see INVALID_LINE)
    InputError,
}

/// marker for "this input line is not valid UTF-8" (never generated as real input)
pub const INVALID_LINE: &str = "\u{F8FF}\u{F8FF}invalid-utf8\u{F8FF}";

#[derive(Clone, Debug, Default)]
pub struct Flags {
    pub jumps: usize,
    pub heart_returns: usize,
    pub input_reads: usize,
    pub eof_reads: usize,
    pub q_decisions_nonzero_count: usize,
    pub b_decisions_nonzero_count: usize,
    pub q_taken_left: usize,
    pub b_taken_left: usize,
    pub nan_decisions: usize,
    pub fraction_decisions: usize,
    pub fraction_seen: bool,
    pub nan_seen: bool,
    pub negative_seen: bool,
    pub multi_operand_neg_recip: usize,
    pub out_writes: usize,
    pub number_text_writes: usize,
    pub labels_registered: usize,
    pub self_label_fallthrough: usize,
    pub stack0_program_push: usize,
    pub max_size9: usize,
    pub stacks_above3_selected: usize,
    /// context of the first pop from an I/O stack (0, 1, 2): "main:<kind>", "main-multi:<kind>", "area", "area-of-selecting-흑"
    pub first_io_pop: Option<String>,
    /// outputs of values >= 2^32 that were passed over (only with `continue_unspecified`)
    pub unspecified_outputs: usize,
    /// total number of pops and pushes (work estimate: a real run costs roughly this many stack operations)
    pub stack_ops: usize,
}

#[derive(Clone, Debug)]
pub struct Model {
    pub cmds: Vec<MCmd>,
    pub stacks: BTreeMap<usize, Vec<RefRat>>,
    pub cur: usize,
    pub labels: HashMap<(u128, u8), usize>,
    pub last_jump: Option<usize>,
    pub input: VecDeque<String>,
    pub out: String,
    pub err: String,
    pub flags: Flags,
    pub size_cap9: usize,
    /// stacks touched by the last step
    pub touched: Vec<usize>,
    /// where in the current command we are (for classification only)
    pub ctx: String,
    /// C13 only: on output of a value >= 2^32 go on with its low 32 bits (what is written is unspecified, whether the run ends is not)
    pub continue_unspecified: bool,
}

/// split a text into lines, each keeping its terminator (as a real `read_line` does)
pub fn split_lines(text: &str) -> VecDeque<String> {
    text.split_inclusive('\n').map(|s| s.to_string()).collect()
}

impl Model {
    pub fn new(cmds: Vec<MCmd>, stdin: &str) -> Model {
        Model {
            cmds,
            stacks: BTreeMap::new(),
            cur: 3,
            labels: HashMap::new(),
            last_jump: None,
            input: split_lines(stdin),
            out: String::new(),
            err: String::new(),
            flags: Flags::default(),
            size_cap9: usize::MAX,
            touched: Vec::new(),
            ctx: String::new(),
            continue_unspecified: false,
        }
    }

    fn note(&mut self, v: &RefRat) {
        match v {
            RefRat::NaN => self.flags.nan_seen = true,
            RefRat::Val { .. } => {
                if !v.is_integer() {
                    self.flags.fraction_seen = true;
                }
                if !v.is_nonneg() {
                    self.flags.negative_seen = true;
                }
                let s = v.size9();
                if s > self.flags.max_size9 {
                    self.flags.max_size9 = s;
                }
            }
        }
    }

    fn push(&mut self, idx: usize, v: RefRat) -> Result<(), Stop> {
        self.flags.stack_ops += 1;
        self.note(&v);
        if v.size9() > self.size_cap9 {
            return Err(Stop::TooBig);
        }
        match idx {
            1 | 2 => {
                let text = if v.is_nonneg() {
                    let f = v.floor().unwrap();
                    let code = match f.to_u64() {
                        Some(c) if c < (1u64 << 32) => c,
                        _ => {
                            if !self.continue_unspecified {
                                return Err(Stop::Unspecified);
                            }
                            self.flags.unspecified_outputs += 1;
                            f.to_limbs().1[0] as u64
                        }
                    };
                    match char::from_u32(code as u32) {
                        Some(ch) => ch.to_string(),
                        None => return Err(Stop::Encoding(code)),
                    }
                } else {
                    self.flags.number_text_writes += 1;
                    v.neg().text()
                };
                self.flags.out_writes += 1;
                if idx == 1 {
                    self.out.push_str(&text);
                } else {
                    self.err.push_str(&text);
                }
            }
            _ => {
                if idx == 0 {
                    self.flags.stack0_program_push += 1;
                }
                let st = self.stacks.entry(idx).or_default();
                if !st.is_empty() || !v.is_nan() {
                    st.push(v);
                }
                self.touched.push(idx);
            }
        }
        Ok(())
    }

    fn pop(&mut self, idx: usize) -> Result<RefRat, Stop> {
        self.flags.stack_ops += 1;
        if idx <= 2 && self.flags.first_io_pop.is_none() {
            self.flags.first_io_pop = Some(self.ctx.clone());
        }
        match idx {
            1 => Err(Stop::Exit(0)),
            2 => Err(Stop::Exit(1)),
            _ => {
                if idx == 0 && self.stacks.get(&0).map(|s| s.is_empty()).unwrap_or(true) {
                    self.flags.input_reads += 1;
                    match self.input.pop_front() {
                        Some(line) if line == INVALID_LINE => return Err(Stop::InputError),
                        Some(line) => {
                            let st = self.stacks.entry(0).or_default();
                            for c in line.chars().rev() {
                                st.push(RefRat::int(c as u32 as i128));
                            }
                        }
                        None => self.flags.eof_reads += 1,
                    }
                }
                self.touched.push(idx);
                let v = self.stacks.get_mut(&idx).and_then(|s| s.pop()).unwrap_or(RefRat::NaN);
                Ok(v)
            }
        }
    }

    /// execute the command at `loc`; Ok(next location) or the reason the run stops in this command
    pub fn step(&mut self, loc: usize) -> Result<usize, Stop> {
        self.touched.clear();
        let c = self.cmds[loc].clone();
        let cur = self.cur;
        self.ctx = if c.h >= 2 && (1..=4).contains(&c.kind) { format!("main-multi:{}", c.kind) } else { format!("main:{}", c.kind) };
        match c.kind {
            0 => {
                let v = RefRat::from_int(RefInt::from_u64(c.h as u64).mul(&RefInt::from_u64(c.d as u64)));
                self.push(cur, v)?;
            }
            1 | 2 => {
                let mut acc = if c.kind == 1 { RefRat::zero() } else { RefRat::one() };
                for _ in 0..c.h {
                    let v = self.pop(cur)?;
                    acc = if c.kind == 1 { acc.add(&v) } else { acc.mul(&v) };
                    if acc.size9() > self.size_cap9 {
                        return Err(Stop::TooBig);
                    }
                }
                self.push(c.d, acc)?;
            }
            3 | 4 => {
                let mut popped = Vec::with_capacity(c.h.min(1 << 16));
                for _ in 0..c.h {
                    popped.push(self.pop(cur)?);
                }
                if c.h >= 2 {
                    self.flags.multi_operand_neg_recip += 1;
                }
                let mut acc = if c.kind == 3 { RefRat::zero() } else { RefRat::one() };
                // from the value popped last to the value popped first: original order is restored
                for v in popped.into_iter().rev() {
                    let x = if c.kind == 3 { v.neg() } else { v.recip() };
                    acc = if c.kind == 3 { acc.add(&x) } else { acc.mul(&x) };
                    if acc.size9() > self.size_cap9 {
                        return Err(Stop::TooBig);
                    }
                    self.push(cur, x)?;
                }
                self.push(c.d, acc)?;
            }
            _ => {
                let n = self.pop(cur)?;
                for _ in 0..c.h {
                    self.push(c.d, n.clone())?;
                }
                self.push(cur, n)?;
                self.cur = c.d;
                if c.d > 3 {
                    self.flags.stacks_above3_selected += 1;
                }
            }
        }
        // area, evaluated against count = h*d on the stack selected now
        let count_u = (c.h as u128) * (c.d as u128);
        let count = RefRat::from_int(RefInt::from_u64(c.h as u64).mul(&RefInt::from_u64(c.d as u64)));
        let sel = self.cur;
        self.ctx = if c.kind == 5 && sel != cur { "area-of-selecting-흑".to_string() } else { "area".to_string() };
        let mut node = &c.area;
        let heart = loop {
            match node {
                RArea::Nil => break 0u8,
                RArea::Heart(h) => break *h,
                RArea::Q(l, r) | RArea::B(l, r) => {
                    let is_q = matches!(node, RArea::Q(..));
                    let v = self.pop(sel)?;
                    let ord = v.cmp(&count);
                    if v.is_nan() {
                        self.flags.nan_decisions += 1;
                    } else if !v.is_integer() {
                        self.flags.fraction_decisions += 1;
                    }
                    if count_u != 0 {
                        if is_q {
                            self.flags.q_decisions_nonzero_count += 1;
                        } else {
                            self.flags.b_decisions_nonzero_count += 1;
                        }
                    }
                    let left = if is_q { ord == Some(Ordering::Less) } else { ord == Some(Ordering::Equal) };
                    if left {
                        if is_q {
                            self.flags.q_taken_left += 1;
                        } else {
                            self.flags.b_taken_left += 1;
                        }
                    }
                    node = if left { l } else { r };
                }
            }
        };
        if heart != 0 {
            if heart != 13 {
                match self.labels.get(&(count_u, heart)) {
                    Some(&target) => {
                        if target != loc {
                            self.last_jump = Some(loc);
                            self.flags.jumps += 1;
                            return Ok(target);
                        }
                        self.flags.self_label_fallthrough += 1;
                    }
                    None => {
                        self.labels.insert((count_u, heart), loc);
                        self.flags.labels_registered += 1;
                    }
                }
            } else if let Some(l) = self.last_jump {
                self.flags.heart_returns += 1;
                self.flags.jumps += 1;
                return Ok(l);
            }
        }
        Ok(loc + 1)
    }

    /// non-empty stacks as (index, texts bottom..top)
    pub fn snapshot(&self) -> Vec<(usize, Vec<String>)> {
        self.stacks.iter().filter(|(_, v)| !v.is_empty()).map(|(k, v)| (*k, v.iter().map(|x| x.text()).collect())).collect()
    }

    pub fn total_values(&self) -> usize {
        self.stacks.values().map(|v| v.len()).sum()
    }
}

/// how a whole run ended
#[derive(Clone, Debug, PartialEq, Eq)]
pub enum End {
    Normal,
    Stop(Stop),
    Budget,
}

#[derive(Clone, Debug)]
pub struct RunResult {
    pub end: End,
    pub steps: usize,
    pub out: String,
    pub err: String,
    pub flags: Flags,
    pub final_loc: usize,
    /// out/err length after each step (only filled when `per_step` is requested)
    pub per_step: Vec<(usize, usize, usize)>, // (loc executed, out len, err len)
}

pub fn run_model(cmds: &[MCmd], stdin: &str, budget: usize, size_cap9: usize, per_step: bool) -> RunResult {
    run_model_lines(cmds, split_lines(stdin), budget, size_cap9, per_step)
}

pub fn run_model_lines(cmds: &[MCmd], lines: VecDeque<String>, budget: usize, size_cap9: usize, per_step: bool) -> RunResult {
    run_model_opts(cmds, lines, budget, size_cap9, per_step, false)
}

pub fn run_model_opts(cmds: &[MCmd], lines: VecDeque<String>, budget: usize, size_cap9: usize, per_step: bool, continue_unspecified: bool) -> RunResult {
    let mut m = Model::new(cmds.to_vec(), "");
    m.continue_unspecified = continue_unspecified;
    m.input = lines;
    m.size_cap9 = size_cap9;
    let mut loc = 0usize;
    let mut steps = 0usize;
    let mut trace = Vec::new();
    let end = loop {
        if loc >= m.cmds.len() {
            break End::Normal;
        }
        if steps >= budget {
            break End::Budget;
        }
        steps += 1;
        let r = m.step(loc);
        if per_step {
            trace.push((loc, m.out.len(), m.err.len()));
        }
        match r {
            Ok(next) => loc = next,
            Err(s) => break End::Stop(s),
        }
    };
    RunResult { end, steps, out: m.out, err: m.err, flags: m.flags, final_loc: loc, per_step: trace }
}

/// self-test: the repository's own golden programs must give the documented output in the reference
pub fn selftest() -> Result<usize, String> {
    use crate::refparse::ref_parse;
    let golden: Vec<(&str, &str, &str, &str)> = vec![
        // (program, stdin, stdout, stderr) — from tests/execute_test.rs, tests/optimize_test.rs and examples/
        ("혀어어어어어어엉......핫.", "", "0", ""),
        ("혀어어어어어어어엉........ 핫. 혀엉..... 흑... 하앗... 흐윽... 형.  하앙.혀엉.... 하앙... 흐윽... 항. 항. 형... 하앙. 흐으윽... 형... 흡... 혀엉..하아아앗. 혀엉.. 흡... 흐읍... 형.. 하앗. 하아앙... 형... 하앙... 흐윽...혀어어엉.. 하앙. 항. 형... 하앙. 혀엉.... 하앙. 흑... 항. 형... 흡  하앗.", "", "Hello, world!", ""),
        ("혀어어어어어어엉......핫.. 혀어어어어어어어엉........ 핫. 혀어어어어어어어엉......... 핫..", "", "H", "0Q"),
        ("형 흣........💕 흣.... 형. 하앙... 흣. 흑... 흐읏....!💕", "", "12345678", ""),
        (
            "형 형 흣\n흑💘!💘 흑...! 하앙... 혀엉... .. 하앗... 흑!?! 흑... 혀어어 어어어 어엉... ... 흣... . 하앙... 흑 혀엉... .. 흣... . 하앙 흑...! 흑?💘?\n흑...! 항... . 혀엉... .. 흡... . 하앗...\n흑!?! 흑...!\n형 형\n흑💕!💕 흑...! 하앙... 혀엉... .. 하앗... 흑!?! 흑... 혀어어 어어어 어엉... ... 흣... . 하앙... 흑 혀엉... .. 흣... . 하앙 흑...! 흑?💕?\n흑...! 항... . 혀엉... .. 흡... . 하앗...\n흐읏.",
            "2 10\n",
            "12",
            "",
        ),
        (
            "형 형 흣\n흑💘!💘 흑...! 하앙... 혀엉... .. 하앗... 흑!?! 흑... 혀어어 어어어 어엉... ... 흣... . 하앙... 흑 혀엉... .. 흣... . 하앙 흑...! 흑?💘?\n흑...! 항... . 혀엉... .. 흡... . 하앗...\n흑!?! 흑...!\n형 형\n흑💕!💕 흑...! 하앙... 혀엉... .. 하앗... 흑!?! 흑... 혀어어 어어어 어엉... ... 흣... . 하앙... 흑 혀엉... .. 흣... . 하앙 흑...! 흑?💕?\n흑...! 항... . 혀엉... .. 흡... . 하앗...\n하앗... 흣.",
            "2 10\n",
            "20",
            "",
        ),
        ("형... 항.", "", "\u{3}", ""),
        ("흑 형💖 하앙. 흑 형 하앗💖!", "ab\n", "ab\n", ""),
        ("흑 형💖 하앙. 흑 형 하앗💖!", "", "너무 커엇...", ""),
        ("흑 형💖 하앙. 흑 형 하앗💖!", "a\u{0}\n\nb", "a\u{0}\n\nb", ""),
    ];
    let mut n = 0;
    for (prog, stdin, out, err) in golden {
        let cmds: Vec<MCmd> = ref_parse(prog).iter().map(|p| MCmd { kind: p.kind, h: p.h, d: p.d, area: p.area.clone() }).collect();
        let r = run_model(&cmds, stdin, 1_000_000, usize::MAX, false);
        if r.end != End::Normal || r.out != out || r.err != err {
            return Err(format!("reference interpreter self-test: `{}` gave end={:?} out={:?} err={:?}, documented out={:?} err={:?}", &prog[..prog.len().min(40)], r.end, r.out, r.err, out, err));
        }
        n += 1;
    }
    Ok(n)
}
