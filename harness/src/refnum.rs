//! Independent exact arithmetic used as the oracle for C05-C07, C09 and by the
//! reference interpreter.  Deliberately different from the implementation under
//! test: sign + little-endian base-10^9 digits, schoolbook algorithms, long
//! division by per-digit binary search.  Cross-checked against i128 and
//! against python3 by `hv selftest`.

use std::cmp::Ordering;

const B: u64 = 1_000_000_000;
pub const NAN_TEXT: &str = "너무 커엇...";

#[derive(Clone, Debug, PartialEq, Eq, Hash)]
pub struct RefInt {
    neg: bool,
    mag: Vec<u32>, // no trailing zero digits; zero is the empty vector with neg == false
}

fn trim(v: &mut Vec<u32>) {
    while let Some(&0) = v.last() {
        v.pop();
    }
}

fn mag_cmp(a: &[u32], b: &[u32]) -> Ordering {
    if a.len() != b.len() {
        return a.len().cmp(&b.len());
    }
    for i in (0..a.len()).rev() {
        if a[i] != b[i] {
            return a[i].cmp(&b[i]);
        }
    }
    Ordering::Equal
}

fn mag_add(a: &[u32], b: &[u32]) -> Vec<u32> {
    let n = a.len().max(b.len());
    let mut r = Vec::with_capacity(n + 1);
    let mut carry = 0u64;
    for i in 0..n {
        let s = carry + *a.get(i).unwrap_or(&0) as u64 + *b.get(i).unwrap_or(&0) as u64;
        r.push((s % B) as u32);
        carry = s / B;
    }
    if carry > 0 {
        r.push(carry as u32);
    }
    r
}

/// a - b, requires a >= b
fn mag_sub(a: &[u32], b: &[u32]) -> Vec<u32> {
    let mut r = Vec::with_capacity(a.len());
    let mut borrow = 0i64;
    for i in 0..a.len() {
        let mut s = a[i] as i64 - borrow - *b.get(i).unwrap_or(&0) as i64;
        if s < 0 {
            s += B as i64;
            borrow = 1;
        } else {
            borrow = 0;
        }
        r.push(s as u32);
    }
    assert_eq!(borrow, 0, "mag_sub: a < b");
    trim(&mut r);
    r
}

fn mag_mul(a: &[u32], b: &[u32]) -> Vec<u32> {
    if a.is_empty() || b.is_empty() {
        return Vec::new();
    }
    let mut r = vec![0u64; a.len() + b.len() + 1];
    for i in 0..a.len() {
        let mut carry = 0u64;
        let ai = a[i] as u64;
        for j in 0..b.len() {
            let t = r[i + j] + ai * b[j] as u64 + carry;
            r[i + j] = t % B;
            carry = t / B;
        }
        let mut k = i + b.len();
        while carry > 0 {
            let t = r[k] + carry;
            r[k] = t % B;
            carry = t / B;
            k += 1;
        }
    }
    let mut out: Vec<u32> = r.into_iter().map(|x| x as u32).collect();
    trim(&mut out);
    out
}

fn mag_mul_small(a: &[u32], m: u64) -> Vec<u32> {
    // m < 2^33
    let mut r = Vec::with_capacity(a.len() + 2);
    let mut carry = 0u128;
    for &d in a {
        let t = d as u128 * m as u128 + carry;
        r.push((t % B as u128) as u32);
        carry = t / B as u128;
    }
    while carry > 0 {
        r.push((carry % B as u128) as u32);
        carry /= B as u128;
    }
    trim(&mut r);
    r
}

fn mag_add_small(a: &[u32], m: u64) -> Vec<u32> {
    let mut small = Vec::new();
    let mut m = m;
    while m > 0 {
        small.push((m % B) as u32);
        m /= B;
    }
    mag_add(a, &small)
}

fn mag_divrem_small(a: &[u32], d: u64) -> (Vec<u32>, u64) {
    // d <= 2^33
    let mut q = vec![0u32; a.len()];
    let mut rem = 0u128;
    for i in (0..a.len()).rev() {
        let cur = rem * B as u128 + a[i] as u128;
        q[i] = (cur / d as u128) as u32;
        rem = cur % d as u128;
    }
    trim(&mut q);
    (q, rem as u64)
}

fn mag_to_u128(a: &[u32]) -> Option<u128> {
    if a.len() > 5 {
        return None;
    }
    let mut v = 0u128;
    for &d in a.iter().rev() {
        v = v.checked_mul(B as u128)?.checked_add(d as u128)?;
    }
    Some(v)
}

fn mag_from_u128(mut v: u128) -> Vec<u32> {
    let mut r = Vec::new();
    while v > 0 {
        r.push((v % B as u128) as u32);
        v /= B as u128;
    }
    r
}

/// long division, b != 0
fn mag_divrem_slow(a: &[u32], b: &[u32]) -> (Vec<u32>, Vec<u32>) {
    assert!(!b.is_empty(), "division by zero in reference");
    let mut q = vec![0u32; a.len()];
    let mut r: Vec<u32> = Vec::new();
    for i in (0..a.len()).rev() {
        // r = r * B + a[i]
        r.insert(0, a[i]);
        trim(&mut r);
        // largest d in [0, B) with b*d <= r
        let (mut lo, mut hi) = (0u64, B - 1);
        while lo < hi {
            let mid = (lo + hi + 1) / 2;
            if mag_cmp(&mag_mul_small(b, mid), &r) != Ordering::Greater {
                lo = mid;
            } else {
                hi = mid - 1;
            }
        }
        q[i] = lo as u32;
        if lo > 0 {
            r = mag_sub(&r, &mag_mul_small(b, lo));
        }
    }
    trim(&mut q);
    (q, r)
}

fn mag_divrem(a: &[u32], b: &[u32]) -> (Vec<u32>, Vec<u32>) {
    if let (Some(x), Some(y)) = (mag_to_u128(a), mag_to_u128(b)) {
        assert!(y != 0, "division by zero in reference");
        return (mag_from_u128(x / y), mag_from_u128(x % y));
    }
    mag_divrem_slow(a, b)
}

impl RefInt {
    pub fn zero() -> RefInt {
        RefInt { neg: false, mag: Vec::new() }
    }
    pub fn one() -> RefInt {
        RefInt::from_i128(1)
    }
    fn make(neg: bool, mut mag: Vec<u32>) -> RefInt {
        trim(&mut mag);
        let neg = neg && !mag.is_empty();
        RefInt { neg, mag }
    }
    pub fn from_i128(v: i128) -> RefInt {
        RefInt::make(v < 0, mag_from_u128(v.unsigned_abs()))
    }
    pub fn from_u64(v: u64) -> RefInt {
        RefInt::from_i128(v as i128)
    }
    /// little-endian base 2^32 limbs
    pub fn from_limbs(neg: bool, limbs: &[u32]) -> RefInt {
        let mut mag: Vec<u32> = Vec::new();
        for &l in limbs.iter().rev() {
            mag = mag_mul_small(&mag, 1u64 << 32);
            mag = mag_add_small(&mag, l as u64);
        }
        RefInt::make(neg, mag)
    }
    /// (negative?, little-endian base 2^32 limbs; zero = [0])
    pub fn to_limbs(&self) -> (bool, Vec<u32>) {
        let mut out = Vec::new();
        let mut cur = self.mag.clone();
        while !cur.is_empty() {
            let (q, r) = mag_divrem_small(&cur, 1u64 << 32);
            out.push(r as u32);
            cur = q;
        }
        if out.is_empty() {
            out.push(0);
        }
        (self.neg, out)
    }
    pub fn is_zero(&self) -> bool {
        self.mag.is_empty()
    }
    pub fn is_neg(&self) -> bool {
        self.neg
    }
    pub fn to_i128(&self) -> Option<i128> {
        let m = mag_to_u128(&self.mag)?;
        if m > i128::MAX as u128 {
            return None;
        }
        Some(if self.neg { -(m as i128) } else { m as i128 })
    }
    pub fn to_u64(&self) -> Option<u64> {
        if self.neg {
            return None;
        }
        let m = mag_to_u128(&self.mag)?;
        if m > u64::MAX as u128 {
            None
        } else {
            Some(m as u64)
        }
    }
    /// number of base-10^9 digits (size measure used for caps)
    pub fn digits9(&self) -> usize {
        self.mag.len()
    }
    pub fn neg(&self) -> RefInt {
        RefInt::make(!self.neg, self.mag.clone())
    }
    pub fn abs(&self) -> RefInt {
        RefInt::make(false, self.mag.clone())
    }
    pub fn add(&self, o: &RefInt) -> RefInt {
        if self.neg == o.neg {
            RefInt::make(self.neg, mag_add(&self.mag, &o.mag))
        } else {
            match mag_cmp(&self.mag, &o.mag) {
                Ordering::Equal => RefInt::zero(),
                Ordering::Greater => RefInt::make(self.neg, mag_sub(&self.mag, &o.mag)),
                Ordering::Less => RefInt::make(o.neg, mag_sub(&o.mag, &self.mag)),
            }
        }
    }
    pub fn sub(&self, o: &RefInt) -> RefInt {
        self.add(&o.neg())
    }
    pub fn mul(&self, o: &RefInt) -> RefInt {
        RefInt::make(self.neg != o.neg, mag_mul(&self.mag, &o.mag))
    }
    /// truncating division and remainder (remainder has the sign of the dividend)
    pub fn divrem_trunc(&self, o: &RefInt) -> (RefInt, RefInt) {
        let (q, r) = mag_divrem(&self.mag, &o.mag);
        (RefInt::make(self.neg != o.neg, q), RefInt::make(self.neg, r))
    }
    pub fn divrem_trunc_slow(&self, o: &RefInt) -> (RefInt, RefInt) {
        let (q, r) = mag_divrem_slow(&self.mag, &o.mag);
        (RefInt::make(self.neg != o.neg, q), RefInt::make(self.neg, r))
    }
    /// floor division (for non-negative divisor)
    pub fn div_floor(&self, o: &RefInt) -> RefInt {
        let (q, r) = self.divrem_trunc(o);
        if !r.is_zero() && (r.neg != o.neg) {
            q.sub(&RefInt::one())
        } else {
            q
        }
    }
    /// non-negative gcd; gcd(0,0) = 0
    pub fn gcd(&self, o: &RefInt) -> RefInt {
        if let (Some(mut x), Some(mut y)) = (mag_to_u128(&self.mag), mag_to_u128(&o.mag)) {
            while y != 0 {
                let t = x % y;
                x = y;
                y = t;
            }
            return RefInt::make(false, mag_from_u128(x));
        }
        let mut a = self.mag.clone();
        let mut b = o.mag.clone();
        while !b.is_empty() {
            let (_, r) = mag_divrem(&a, &b);
            a = b;
            b = r;
        }
        RefInt::make(false, a)
    }
    pub fn cmp(&self, o: &RefInt) -> Ordering {
        match (self.neg, o.neg) {
            (false, true) => Ordering::Greater,
            (true, false) => Ordering::Less,
            (false, false) => mag_cmp(&self.mag, &o.mag),
            (true, true) => mag_cmp(&o.mag, &self.mag),
        }
    }
    pub fn to_dec(&self) -> String {
        if self.mag.is_empty() {
            return "0".to_string();
        }
        let mut s = String::new();
        if self.neg {
            s.push('-');
        }
        let n = self.mag.len();
        s.push_str(&format!("{}", self.mag[n - 1]));
        for i in (0..n - 1).rev() {
            s.push_str(&format!("{:09}", self.mag[i]));
        }
        s
    }
    pub fn from_dec(s: &str) -> Option<RefInt> {
        let (neg, body) = match s.strip_prefix('-') {
            Some(r) => (true, r),
            None => (false, s),
        };
        if body.is_empty() || !body.bytes().all(|b| b.is_ascii_digit()) {
            return None;
        }
        let bytes = body.as_bytes();
        let mut mag = Vec::new();
        let mut end = bytes.len();
        while end > 0 {
            let start = end.saturating_sub(9);
            let chunk = std::str::from_utf8(&bytes[start..end]).unwrap();
            mag.push(chunk.parse::<u32>().unwrap());
            end = start;
        }
        Some(RefInt::make(neg, mag))
    }
    /// conventional rendering in base 2..=36: digits 0-9A-Z, leading '-', no leading zeros
    pub fn to_radix(&self, base: u32) -> String {
        assert!((2..=36).contains(&base));
        if self.mag.is_empty() {
            return "0".to_string();
        }
        let mut digits = Vec::new();
        let mut cur = self.mag.clone();
        while !cur.is_empty() {
            let (q, r) = mag_divrem_small(&cur, base as u64);
            digits.push(std::char::from_digit(r as u32, base).unwrap().to_ascii_uppercase());
            cur = q;
        }
        if self.neg {
            digits.push('-');
        }
        digits.iter().rev().collect()
    }
}

/// exact rational or NaN, always canonical
#[derive(Clone, Debug, PartialEq, Eq, Hash)]
pub enum RefRat {
    NaN,
    Val { n: RefInt, d: RefInt },
}

impl RefRat {
    pub fn new(n: RefInt, d: RefInt) -> RefRat {
        if d.is_zero() {
            return RefRat::NaN;
        }
        let g = n.gcd(&d);
        let (mut n, mut d) = if g == RefInt::one() {
            (n, d)
        } else {
            (n.divrem_trunc(&g).0, d.divrem_trunc(&g).0)
        };
        if d.is_neg() {
            n = n.neg();
            d = d.neg();
        }
        RefRat::Val { n, d }
    }
    pub fn int(v: i128) -> RefRat {
        RefRat::Val { n: RefInt::from_i128(v), d: RefInt::one() }
    }
    pub fn from_int(n: RefInt) -> RefRat {
        RefRat::Val { n, d: RefInt::one() }
    }
    pub fn zero() -> RefRat {
        RefRat::int(0)
    }
    pub fn one() -> RefRat {
        RefRat::int(1)
    }
    pub fn is_nan(&self) -> bool {
        matches!(self, RefRat::NaN)
    }
    /// value >= 0 and not NaN
    pub fn is_nonneg(&self) -> bool {
        match self {
            RefRat::NaN => false,
            RefRat::Val { n, .. } => !n.is_neg(),
        }
    }
    pub fn is_integer(&self) -> bool {
        match self {
            RefRat::NaN => false,
            RefRat::Val { d, .. } => *d == RefInt::one(),
        }
    }
    pub fn add(&self, o: &RefRat) -> RefRat {
        match (self, o) {
            (RefRat::Val { n: a, d: b }, RefRat::Val { n: c, d: e }) => {
                if *b == RefInt::one() && *e == RefInt::one() {
                    return RefRat::Val { n: a.add(c), d: RefInt::one() };
                }
                RefRat::new(a.mul(e).add(&c.mul(b)), b.mul(e))
            }
            _ => RefRat::NaN,
        }
    }
    pub fn mul(&self, o: &RefRat) -> RefRat {
        match (self, o) {
            (RefRat::Val { n: a, d: b }, RefRat::Val { n: c, d: e }) => {
                if *b == RefInt::one() && *e == RefInt::one() {
                    return RefRat::Val { n: a.mul(c), d: RefInt::one() };
                }
                RefRat::new(a.mul(c), b.mul(e))
            }
            _ => RefRat::NaN,
        }
    }
    pub fn neg(&self) -> RefRat {
        match self {
            RefRat::NaN => RefRat::NaN,
            RefRat::Val { n, d } => RefRat::Val { n: n.neg(), d: d.clone() },
        }
    }
    /// reciprocal; of zero: NaN
    pub fn recip(&self) -> RefRat {
        match self {
            RefRat::NaN => RefRat::NaN,
            RefRat::Val { n, d } => {
                if n.is_zero() {
                    RefRat::NaN
                } else if n.is_neg() {
                    RefRat::Val { n: d.neg(), d: n.neg() }
                } else {
                    RefRat::Val { n: d.clone(), d: n.clone() }
                }
            }
        }
    }
    /// floor (any sign); None for NaN
    pub fn floor(&self) -> Option<RefInt> {
        match self {
            RefRat::NaN => None,
            RefRat::Val { n, d } => Some(n.div_floor(d)),
        }
    }
    pub fn cmp(&self, o: &RefRat) -> Option<Ordering> {
        match (self, o) {
            (RefRat::Val { n: a, d: b }, RefRat::Val { n: c, d: e }) => {
                Some(a.mul(e).cmp(&c.mul(b)))
            }
            _ => None,
        }
    }
    /// canonical text: `n`, `n/d`, or the NaN text
    pub fn text(&self) -> String {
        match self {
            RefRat::NaN => NAN_TEXT.to_string(),
            RefRat::Val { n, d } => {
                if *d == RefInt::one() {
                    n.to_dec()
                } else {
                    format!("{}/{}", n.to_dec(), d.to_dec())
                }
            }
        }
    }
    /// size measure: max number of base-10^9 digits of numerator/denominator
    pub fn size9(&self) -> usize {
        match self {
            RefRat::NaN => 0,
            RefRat::Val { n, d } => n.digits9().max(d.digits9()),
        }
    }
    pub fn parts(&self) -> Option<(&RefInt, &RefInt)> {
        match self {
            RefRat::NaN => None,
            RefRat::Val { n, d } => Some((n, d)),
        }
    }
}

/// self-test of the reference arithmetic against native i128; returns the number of checks done
pub fn selftest_i128(seed: u64) -> Result<usize, String> {
    let mut s = seed | 1;
    let mut next = move || {
        s ^= s << 13;
        s ^= s >> 7;
        s ^= s << 17;
        s
    };
    let specials: [i128; 14] = [
        0,
        1,
        -1,
        2,
        999_999_999,
        1_000_000_000,
        1_000_000_001,
        (1i128 << 31),
        (1i128 << 32) - 1,
        1i128 << 32,
        (1i128 << 62) + 12345,
        -(1i128 << 61),
        (1i128 << 63) - 1,
        -(1i128 << 63),
    ];
    let mut pick = |i: usize| -> i128 {
        let r = next();
        if r % 3 == 0 {
            specials[(r / 3) as usize % specials.len()]
        } else {
            let bits = (next() % 63) as u32 + 1;
            let v = (next() & ((1u64 << bits) - 1)) as i128;
            if (r >> 20) % 2 == 0 && i % 2 == 0 {
                -v
            } else if (r >> 21) % 2 == 0 {
                -v
            } else {
                v
            }
        }
    };
    let mut n = 0usize;
    for i in 0..20000 {
        let a = pick(i);
        let b = pick(i + 1);
        let (ra, rb) = (RefInt::from_i128(a), RefInt::from_i128(b));
        let chk = |name: &str, got: &RefInt, want: i128| -> Result<(), String> {
            if got.to_i128() != Some(want) || got.to_dec() != want.to_string() {
                Err(format!("refint {} a={} b={} got={} want={}", name, a, b, got.to_dec(), want))
            } else {
                Ok(())
            }
        };
        chk("add", &ra.add(&rb), a + b)?;
        chk("sub", &ra.sub(&rb), a - b)?;
        chk("mul", &ra.mul(&rb), a * b)?;
        if b != 0 {
            let (q, r) = ra.divrem_trunc(&rb);
            chk("div", &q, a / b)?;
            chk("rem", &r, a % b)?;
            let (q2, r2) = ra.divrem_trunc_slow(&rb);
            chk("div_slow", &q2, a / b)?;
            chk("rem_slow", &r2, a % b)?;
            let fl = {
                let (q, r) = (a / b, a % b);
                if r != 0 && ((r < 0) != (b < 0)) {
                    q - 1
                } else {
                    q
                }
            };
            chk("div_floor", &ra.div_floor(&rb), fl)?;
        }
        if ra.cmp(&rb) != a.cmp(&b) {
            return Err(format!("refint cmp a={} b={}", a, b));
        }
        let mut x = a.unsigned_abs();
        let mut y = b.unsigned_abs();
        while y != 0 {
            let t = x % y;
            x = y;
            y = t;
        }
        chk("gcd", &ra.gcd(&rb), x as i128)?;
        // limbs round trip
        let (neg, limbs) = ra.to_limbs();
        if RefInt::from_limbs(neg, &limbs) != ra {
            return Err(format!("refint limbs roundtrip a={}", a));
        }
        let mut v: u128 = 0;
        for &l in limbs.iter().rev() {
            v = (v << 32) | l as u128;
        }
        if v != a.unsigned_abs() {
            return Err(format!("refint to_limbs a={}", a));
        }
        if RefInt::from_dec(&a.to_string()) != Some(ra.clone()) {
            return Err(format!("refint from_dec a={}", a));
        }
        for base in [2u32, 7, 10, 16, 36] {
            let want = {
                let mut m = a.unsigned_abs();
                let mut d = Vec::new();
                if m == 0 {
                    d.push('0');
                }
                while m > 0 {
                    d.push(std::char::from_digit((m % base as u128) as u32, base).unwrap().to_ascii_uppercase());
                    m /= base as u128;
                }
                if a < 0 {
                    d.push('-');
                }
                d.iter().rev().collect::<String>()
            };
            if ra.to_radix(base) != want {
                return Err(format!("refint to_radix a={} base={}", a, base));
            }
        }
        n += 12;
    }
    Ok(n)
}
