//! C02 — optimisation levels 1 and 2 never change what a program does.

use super::c01::describe_end;
use crate::engine::*;
use crate::gen::*;
use crate::proc;
use crate::refexec::*;
use crate::{ensure, fail};
use proptest::prelude::*;
use serde_json::{json, Value};
use std::time::Duration;

pub const RULE: &str = "cases = (program, stdin) from the C01 generator with more stacks above 3, loops around the 100-jump budget, input in \
the middle, exits; the reference model only classifies. Model terminates: `hyeong run -O0/-O1/-O2` must give identical stdout, stderr and \
exit status (encoding error: status 1, same diagnostic kind, prefixes allowed). Model does not terminate within its budget: three child \
processes wired exactly like src/app/run.rs (optimize, emit captured output, execute) run under a step budget; the outputs of level 1/2 must be \
prefix-compatible with level 0. non-trivial = the program has >= 1 output byte or a requested exit AND the optimiser had something to do \
(>= 2 distinct stacks above 3 used, or the model took > 0 steps before the first input read / exit, i.e. level 2 pre-executes a non-empty prefix); \
distinct = distinct (program, stdin)";

#[derive(Clone, Debug)]
pub struct Case2(pub ProgCase);

impl Case for Case2 {
    fn to_json(&self) -> Value {
        self.0.to_json()
    }
    fn from_json(v: &Value) -> Option<Self> {
        ProgCase::from_json(v).map(Case2)
    }
}

pub struct Cfg {
    pub budget: usize,
    pub child_steps: u64,
}

fn first_line(b: &[u8]) -> &[u8] {
    match b.iter().position(|&c| c == b'\n') {
        Some(p) => &b[..=p],
        None => b,
    }
}

fn is_prefix_compatible(a: &[u8], b: &[u8]) -> bool {
    let n = a.len().min(b.len());
    a[..n] == b[..n]
}

fn lossy(b: &[u8]) -> String {
    let s = String::from_utf8_lossy(b);
    if s.chars().count() > 300 {
        s.chars().take(300).collect::<String>() + "…"
    } else {
        s.into_owned()
    }
}

pub fn check(c: &Case2, st: &mut Stats, cfg: &Cfg, bin: &std::path::Path, hv: &std::path::Path, scratch: &std::path::Path) -> CheckResult {
    let text = c.0.text();
    let cmds = c.0.mcmds();
    let m = run_model(&cmds, &c.0.stdin, cfg.budget, 7, false);
    st.class(describe_end(&m.end));
    if m.flags.stack_ops > 4_000_000 {
        st.exclude("more than 4 million stack operations (too slow to judge with a fixed CPU limit)");
        return Ok(());
    }
    let stacks_above3: std::collections::BTreeSet<usize> = c.0.cmds.iter().filter(|x| x.kind != 0 && x.d > 3).map(|x| x.d).collect();
    let selected_above3: std::collections::BTreeSet<usize> = c.0.cmds.iter().filter(|x| x.kind == 5 && x.d > 3).map(|x| x.d).collect();
    if stacks_above3.len() >= 2 {
        st.class("uses >= 2 stacks above 3");
    }
    if stacks_above3.difference(&selected_above3).count() >= 1 && !selected_above3.is_empty() {
        st.class("has never-selected and selected stacks above 3");
    }
    if m.flags.input_reads > 0 {
        st.class("reads input (level 2 leaves a residual program)");
    }
    if m.flags.jumps > 100 {
        st.class("more than 100 jumps (beyond the speculation budget)");
    }
    if m.flags.multi_operand_neg_recip > 0 {
        st.class("multi-operand 흣/흡");
    }
    if m.out.len() + m.err.len() > 4000 && !m.out.is_ascii() | !m.err.is_ascii() {
        st.class("more than 4 KB of multi-byte output");
    }
    let has_effect = !m.out.is_empty() || !m.err.is_empty() || matches!(m.end, End::Stop(Stop::Exit(_)));
    let optimiser_active = stacks_above3.len() >= 2 || m.steps > 1;
    match m.end {
        End::Stop(Stop::Unspecified) | End::Stop(Stop::TooBig) | End::Stop(Stop::InputError) => {
            st.exclude("model cut (unspecified output / size cap)");
            return Ok(());
        }
        End::Normal | End::Stop(Stop::Exit(_)) | End::Stop(Stop::Encoding(_)) => {
            let mut runs = Vec::new();
            for level in 0u8..=2 {
                // pre-execution cost grows with the square of the program length: very long programs get a CPU limit to match
                let cpu = if c.0.cmds.len() > 3000 { 90 } else { 5 };
                let r = match proc::run_hyeong(bin, scratch, &text, level, c.0.stdin.as_bytes(), |o| {
                    o.cpu_secs = Some(cpu);
                    o.wall = Duration::from_secs(90 + 4 * cpu);
                    o.out_cap = m.out.len() + (256 << 10);
                }) {
                    Ok(r) => r,
                    Err(e) => {
                        st.trouble(format!("cannot spawn hyeong: {}", e));
                        return Ok(());
                    }
                };
                if r.raw.status == proc::Status::Timeout {
                    st.trouble(format!("wall-clock watchdog fired on `hyeong run -O{}`", level));
                    return Ok(());
                }
                runs.push(r);
            }
            st.class("cli triples");
            let l0 = &runs[0];
            // a program that is slow at level 0 already cannot be judged with a fixed CPU limit on the other levels
            if l0.raw.wall > Duration::from_millis(1500) {
                st.exclude("level-0 run slower than 1.5 s (no fixed CPU limit can judge the other levels)");
                return Ok(());
            }
            // level 0 must end the way the definition says; otherwise this case cannot serve as a yardstick (C01 reports it)
            let want0 = match m.end {
                End::Normal | End::Stop(Stop::Exit(0)) => 0,
                _ => 1,
            };
            if l0.raw.status != proc::Status::Code(want0) || l0.out != m.out.as_bytes() {
                st.exclude("level 0 disagrees with the model (reported by C01)");
                return Ok(());
            }
            for level in 1..=2usize {
                let lk = &runs[level];
                let tag = |s: &str| format!("c02:O{}-{}", level, s);
                if let End::Stop(Stop::Encoding(_)) = m.end {
                    ensure!(lk.raw.status == proc::Status::Code(1), &tag("status"), "-O{} ended with {:?}, -O0 stops with an encoding error (status 1)", level, lk.raw.status);
                    let d0 = &l0.raw.stderr[m.err.len().min(l0.raw.stderr.len())..];
                    let kind = first_line(d0);
                    // find the diagnostic in level k's stderr: it must end with the same kind of error
                    let ek = &lk.raw.stderr;
                    let pos = ek.windows(kind.len().max(1)).rposition(|w| w == kind);
                    let pos = match pos {
                        Some(p) if !kind.is_empty() => p,
                        _ => fail!(&tag("error-kind"), "-O{} stderr {:?} does not carry the diagnostic {:?} of -O0", level, lossy(ek), lossy(kind)),
                    };
                    ensure!(l0.raw.stderr.starts_with(&ek[..pos]), &tag("stderr"), "-O{} wrote {:?} to stderr before the error, -O0 wrote {:?}", level, lossy(&ek[..pos]), lossy(&l0.raw.stderr));
                    ensure!(l0.out.starts_with(&lk.out), &tag("stdout"), "-O{} wrote {:?} before the error, -O0 wrote {:?}", level, lossy(&lk.out), lossy(&l0.out));
                    st.class("encoding error compared across levels");
                } else {
                    ensure!(lk.raw.status == l0.raw.status, &tag("status"), "-O{} ended with {:?}, -O0 with {:?}; stderr {:?}", level, lk.raw.status, l0.raw.status, lossy(&lk.raw.stderr));
                    ensure!(lk.out == l0.out, &tag("stdout"), "-O{} stdout {:?}, -O0 stdout {:?}", level, lossy(&lk.out), lossy(&l0.out));
                    ensure!(lk.raw.stderr == l0.raw.stderr, &tag("stderr"), "-O{} stderr {:?}, -O0 stderr {:?}", level, lossy(&lk.raw.stderr), lossy(&l0.raw.stderr));
                }
            }
        }
        End::Budget => {
            // bounded runs in child processes wired like run.rs
            let dir = proc::scratch_dir(scratch, "c02");
            let file = dir.join("p.hyeong");
            if let Err(e) = std::fs::write(&file, &text) {
                st.trouble(format!("scratch write: {}", e));
                return Ok(());
            }
            let mut runs = Vec::new();
            for level in 0u8..=2 {
                let mut o = proc::RunOpts::new(c.0.stdin.as_bytes());
                o.cpu_secs = Some(10);
                o.wall = Duration::from_secs(120);
                o.out_cap = 4 << 20;
                let r = proc::run(hv, &["child-run", file.to_str().unwrap(), &level.to_string(), &cfg.child_steps.to_string()], &o);
                match r {
                    Ok(r) => runs.push(r),
                    Err(e) => {
                        st.trouble(format!("cannot spawn hv child-run: {}", e));
                        let _ = std::fs::remove_dir_all(&dir);
                        return Ok(());
                    }
                }
            }
            let _ = std::fs::remove_dir_all(&dir);
            st.class("bounded child triples");
            let l0 = &runs[0];
            if l0.status == proc::Status::Timeout {
                st.trouble("wall-clock watchdog fired on the level-0 bounded run");
                return Ok(());
            }
            if !matches!(l0.status, proc::Status::Code(_)) || l0.wall > Duration::from_millis(2000) {
                st.exclude("level-0 bounded run slower than 2 s or killed by its CPU limit (cannot judge the other levels)");
                return Ok(());
            }
            if !is_prefix_compatible(&l0.stdout, m.out.as_bytes()) {
                st.exclude("level 0 disagrees with the model (reported by C01)");
                return Ok(());
            }
            for level in 1..=2usize {
                let lk = &runs[level];
                let tag = |s: &str| format!("c02:O{}-{}", level, s);
                match lk.status {
                    proc::Status::Timeout => {
                        st.trouble(format!("wall-clock watchdog fired on the level-{} bounded run", level));
                        return Ok(());
                    }
                    proc::Status::Signal(sig) => fail!(&tag("no-end"), "bounded run at level {} was killed by signal {} (CPU limit 10 s; the level-0 run needed {:?})", level, sig, l0.wall),
                    proc::Status::Code(101) => fail!(&tag("panic"), "bounded run at level {} panicked: {:?}", level, lossy(&lk.stderr)),
                    proc::Status::Code(_) => {}
                }
                ensure!(is_prefix_compatible(&lk.stdout, &l0.stdout), &tag("stdout"), "level {} wrote {:?}, level 0 wrote {:?} (not prefix-compatible)", level, lossy(&lk.stdout), lossy(&l0.stdout));
                // stderr of the child carries an `[error]` line only when execution failed; compare what the program wrote
                let strip = |r: &proc::Output| -> Vec<u8> {
                    if r.status == proc::Status::Code(super::child::EXIT_ERROR) {
                        match r.stderr.windows(8).rposition(|w| w == b"[error] ") {
                            Some(p) => r.stderr[..p].to_vec(),
                            None => r.stderr.clone(),
                        }
                    } else {
                        r.stderr.clone()
                    }
                };
                let (e0, ek) = (strip(l0), strip(lk));
                ensure!(is_prefix_compatible(&ek, &e0), &tag("stderr"), "level {} stderr {:?}, level 0 stderr {:?} (not prefix-compatible)", level, lossy(&ek), lossy(&e0));
            }
        }
    }
    if has_effect && optimiser_active {
        st.nontrivial(&c.0, || json!({"program": text, "stdin": c.0.stdin, "end": describe_end(&m.end), "stdout": m.out.chars().take(60).collect::<String>()}));
    }
    Ok(())
}

pub fn profile(max_len: usize) -> Profile {
    Profile { many_stacks: true, ..Profile::general(max_len) }
}

/// straight-line programs that write kilobytes of multi-byte characters without reading input: at level 2 all of it is produced
/// during pre-execution and re-emitted before the residual program runs (sizes around 4 KiB / 8 KiB / 64 KiB of UTF-8)
pub fn big_output_strategy() -> BoxedStrategy<Case2> {
    let ch = prop::sample::select(vec![(233usize, 2usize), (2048, 3), (0xAC00, 3), (0x1F600, 4), (0x10000, 4)]);
    (ch, prop::sample::select(vec![4096usize, 8192, 65536]), -3i64..=3, 0usize..4, 1usize..=2, any::<bool>())
        .prop_map(|((cp, len), boundary, off, ascii, target, then_read)| {
            use crate::refparse::RCmd;
            // the level-2 pre-execution is quadratic in the number of commands (it snapshots the state per command):
            // keep the largest programs at ~17 k commands
            let boundary = if boundary == 65536 && len < 4 { 8192 } else { boundary };
            let n = ((boundary / len) as i64 + off).max(1) as usize;
            let mut cmds = Vec::new();
            for _ in 0..ascii {
                cmds.push(RCmd::new(0, 5, 13));
                cmds.push(RCmd::new(1, 1, target));
            }
            // value = cp via a product of small factors: cp = a * b (+ c)
            let (a, b) = (1..=64usize).rev().find(|a| cp % a == 0 && cp / a <= 3000).map(|a| (a, cp / a)).unwrap_or((1, cp.min(3000)));
            let mut left = n;
            while left > 0 {
                let k = left.min(40);
                cmds.push(RCmd::new(0, a, b));
                if a * b != cp {
                    // unreachable for the table above; keep the value anyway
                }
                if k > 1 {
                    cmds.push(RCmd::new(5, k - 1, 3));
                }
                for _ in 0..k {
                    cmds.push(RCmd::new(1, 1, target));
                }
                left -= k;
            }
            if then_read {
                cmds.push(RCmd::new(5, 1, 0));
                cmds.push(RCmd::new(1, 1, 1));
            }
            Case2(ProgCase { cmds, stdin: "xy\n".to_string() })
        })
        .boxed()
}

/// a loop of fewer than 100 rounds whose body writes > 100 bytes per round: everything is produced inside ONE speculatively
/// executed top-level command (the jump closing the loop), i.e. inside one capture buffer of the optimiser (> 4 KiB, > 8 KiB)
fn loop_output_strategy() -> BoxedStrategy<Case2> {
    (prop::sample::select(vec![35usize, 70, 90, 99]), prop::sample::select(vec![(233usize, 2usize), (2048, 3), (0x1F600, 4)]), 20usize..=40, 1usize..=2, any::<bool>())
        .prop_map(|(rounds, (cp, _len), k, target, then_read)| {
            use crate::refparse::RCmd;
            let ps = |a: &str| crate::refparse::parse_shape(a).unwrap();
            let total = 2 * rounds + 2;
            let h = (1..=64usize).rev().find(|h| total % h == 0).unwrap_or(1);
            let (a, b) = (1..=64usize).rev().find(|a| cp % a == 0 && cp / a <= 3000).map(|a| (a, cp / a)).unwrap_or((1, cp.min(3000)));
            let mut cmds = vec![RCmd::new(0, h, total / h), RCmd::with_area(1, 1, 3, ps("♥"))];
            cmds.push(RCmd::new(0, a, b));
            cmds.push(RCmd::new(5, k - 1, 3));
            for _ in 0..k {
                cmds.push(RCmd::new(1, 1, target));
            }
            cmds.push(RCmd::new(0, 1, 1));
            cmds.push(RCmd::new(3, 1, 3));
            cmds.push(RCmd::new(1, 3, 3));
            cmds.push(RCmd::new(5, 1, 3));
            cmds.push(RCmd::with_area(1, 1, 3, ps("?♥")));
            if then_read {
                cmds.push(RCmd::new(5, 1, 0));
                cmds.push(RCmd::new(1, 1, 1));
            }
            Case2(ProgCase { cmds, stdin: "xy\n".to_string() })
        })
        .boxed()
}

/// the program *ends* with a 흑 that selects a stack above 3 and jumps back through a label; another stack above 3 is only pushed to;
/// the code jumped to pops from the newly selected stack and prints (never ends: compared under a step budget)
pub fn idiom_final_select(s: usize, t: usize, heart: char, printer: u8) -> Vec<crate::refparse::RCmd> {
    use crate::refparse::RCmd;
    let ps = |a: &str| crate::refparse::parse_shape(a).unwrap();
    let hs = heart.to_string();
    let p = match printer % 3 {
        0 => RCmd::new(3, 1, 1),
        1 => RCmd::new(1, 1, 1),
        _ => RCmd::new(3, 1, 2),
    };
    vec![RCmd::new(0, 1, 1), RCmd::new(0, 1, 2), RCmd::with_area(0, s, 1, ps(&hs)), RCmd::new(1, 1, t), p, RCmd::with_area(5, 1, s, ps(&hs))]
}

pub fn run(ctx: &Ctx, out: &mut Outcome) {
    let t = ctx.tier;
    let bin = ctx.hyeong_bin();
    let hv = std::env::current_exe().unwrap_or_else(|_| ctx.verif.join("target/hv/release/hv"));
    let scratch = ctx.scratch.clone();
    let cfg = Cfg { budget: t.pick(3000, 10000), child_steps: t.pick(4000, 20000) };
    let max_len = t.pick(40, 80);
    {
        let (bin, hv, scratch) = (bin.clone(), hv.clone(), scratch.clone());
        let cfg = Cfg { budget: 400_000, child_steps: 400_000 };
        search::<Case2>(ctx, out, "big-output", t.pick(48, 400), &big_output_strategy, &move |c, st| check(c, st, &cfg, &bin, &hv, &scratch));
    }
    {
        let (bin, hv, scratch) = (bin.clone(), hv.clone(), scratch.clone());
        let cfg = Cfg { budget: 400_000, child_steps: 400_000 };
        search::<Case2>(ctx, out, "loop-output", t.pick(48, 400), &loop_output_strategy, &move |c, st| check(c, st, &cfg, &bin, &hv, &scratch));
    }
    {
        // programs ending in a selecting 흑 that jumps back
        let (bin, hv, scratch) = (bin.clone(), hv.clone(), scratch.clone());
        let cfg = Cfg { budget: t.pick(3000, 10000), child_steps: t.pick(4000, 20000) };
        search::<Case2>(
            ctx,
            out,
            "final-select",
            t.pick(600, 6_000),
            &|| {
                (program_with_jumps(&profile(12)), 4usize..=8, 4usize..=8, prop::sample::select(vec!['♥', '💖', '💚']), 0u8..3, stdin_text())
                    .prop_map(|(mut cmds, s, t, h, p, stdin)| {
                        cmds.extend(idiom_final_select(s, if t == s { t + 1 } else { t }, h, p));
                        Case2(ProgCase { cmds, stdin })
                    })
                    .boxed()
            },
            &move |c, st| check(c, st, &cfg, &bin, &hv, &scratch),
        );
    }
    search::<Case2>(ctx, out, "general", t.pick(12_000, 70_000), &move || prog_case(&profile(max_len)).prop_map(Case2).boxed(), &move |c, st| check(c, st, &cfg, &bin, &hv, &scratch));
}

pub fn replay(ctx: &Ctx, v: &Value) -> Result<CheckResult, String> {
    let bin = ctx.hyeong_bin();
    let hv = std::env::current_exe().unwrap_or_else(|_| ctx.verif.join("target/hv/release/hv"));
    let scratch = ctx.scratch.clone();
    let cfg = Cfg { budget: 20000, child_steps: 40000 };
    replay_case::<Case2>(v, &move |c, st| check(c, st, &cfg, &bin, &hv, &scratch))
}

pub fn gates(out: &Outcome, tier: Tier) -> Vec<String> {
    let mut v = Vec::new();
    let m = tier.pick(1, 8);
    for (class, min) in [
        ("cli triples", 2000u64),
        ("bounded child triples", 300),
        ("uses >= 2 stacks above 3", 1000),
        ("has never-selected and selected stacks above 3", 500),
        ("reads input (level 2 leaves a residual program)", 500),
        ("more than 100 jumps (beyond the speculation budget)", 200),
        ("multi-operand 흣/흡", 1000),
        ("end: exit 0", 100),
        ("end: exit 1", 100),
        ("encoding error compared across levels", 5),
        ("more than 4 KB of multi-byte output", 25),
    ] {
        if out.stats.get(class) < min * m {
            v.push(format!("class '{}' has {} cases, need >= {}", class, out.stats.get(class), min * m));
        }
    }
    v
}
