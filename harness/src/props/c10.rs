//! C10 — optimising a program never performs the program's effects and always finishes.

use super::child::MARKER;
use crate::engine::*;
use crate::gen::*;
use crate::proc;
use crate::refexec::*;
use crate::{ensure, fail};
use proptest::prelude::*;
use serde_json::{json, Value};
use std::io::{Read, Seek};
use std::os::unix::process::ExitStatusExt;
use std::process::{Command, Stdio};
use std::time::{Duration, Instant};

pub const RULE: &str = "cases = (program, level 0..2): programs heavy in 흑 selecting stack 0/1/2 followed by each of the six kinds (pop directly, \
as one of several operands, inside ?/! areas incl. the area of the selecting 흑), programs whose first command reads or exits, and loops whose \
values stay small (label ping-pong, ♡ loops, counting loops); a child process calls optimize() with a regular file holding a sentinel as stdin \
(descriptor shared with the parent, so any read moves the shared offset). After the child ends: offset still 0, stdout exactly the completion marker, \
stderr empty, exit status 0, CPU time within the limit. Programs whose values explode (model value > ~2^750 within the speculation horizon) are \
excluded and counted. non-trivial = really running the program would read stdin, exit, or loop past the model budget; distinct = distinct (program, level)";

#[derive(Clone, Debug)]
pub struct Case10 {
    pub prog: ProgCase,
    pub level: u8,
}

impl Case for Case10 {
    fn to_json(&self) -> Value {
        let mut v = self.prog.to_json();
        v["level"] = json!(self.level);
        v
    }
    fn from_json(v: &Value) -> Option<Self> {
        Some(Case10 { prog: ProgCase::from_json(v)?, level: v.get("level")?.as_u64()? as u8 })
    }
}

const SENTINEL_LEN: usize = 20_000;

fn sentinel() -> Vec<u8> {
    let mut s = Vec::with_capacity(SENTINEL_LEN);
    let mut i = 0;
    while s.len() < SENTINEL_LEN {
        s.extend_from_slice(format!("sentinel line {} 가나다 😀\n", i).as_bytes());
        i += 1;
    }
    s
}

pub struct ChildResult {
    pub status: proc::Status,
    pub stdout: Vec<u8>,
    pub stderr: Vec<u8>,
    pub offset: u64,
    pub wall: Duration,
}

pub fn run_child(hv: &std::path::Path, scratch: &std::path::Path, text: &str, level: u8, cpu: u64) -> std::io::Result<ChildResult> {
    let dir = proc::scratch_dir(scratch, "c10");
    let file = dir.join("p.hyeong");
    std::fs::write(&file, text)?;
    let sfile = dir.join("stdin.txt");
    std::fs::write(&sfile, sentinel())?;
    let mut f = std::fs::File::open(&sfile)?;
    let child_stdin = f.try_clone()?; // same open file description: the offset is shared
    let mut cmd = Command::new(hv);
    cmd.args(["child-optimize", file.to_str().unwrap(), &level.to_string()])
        .stdin(Stdio::from(child_stdin))
        .stdout(Stdio::piped())
        .stderr(Stdio::piped())
        .env("RUST_BACKTRACE", "0");
    let t0 = Instant::now();
    let mut child = cmd.spawn()?;
    let lim = libc::rlimit { rlim_cur: cpu, rlim_max: cpu + 1 };
    unsafe {
        libc::prlimit(child.id() as libc::pid_t, libc::RLIMIT_CPU, &lim, std::ptr::null_mut());
    }
    let mut so = child.stdout.take().unwrap();
    let mut se = child.stderr.take().unwrap();
    let (stdout, stderr, status) = std::thread::scope(|s| {
        let o = s.spawn(move || {
            let mut b = Vec::new();
            let _ = so.by_ref().take(1 << 20).read_to_end(&mut b);
            let _ = std::io::copy(&mut so, &mut std::io::sink());
            b
        });
        let e = s.spawn(move || {
            let mut b = Vec::new();
            let _ = se.by_ref().take(1 << 20).read_to_end(&mut b);
            let _ = std::io::copy(&mut se, &mut std::io::sink());
            b
        });
        let mut delay = Duration::from_micros(200);
        let status = loop {
            match child.try_wait() {
                Ok(Some(st)) => {
                    break match (st.code(), st.signal()) {
                        (Some(c), _) => proc::Status::Code(c),
                        (None, Some(sig)) => proc::Status::Signal(sig),
                        _ => proc::Status::Signal(-1),
                    }
                }
                Ok(None) => {
                    if t0.elapsed() > Duration::from_secs(cpu * 6 + 60) {
                        let _ = child.kill();
                        let _ = child.wait();
                        break proc::Status::Timeout;
                    }
                    std::thread::sleep(delay);
                    if delay < Duration::from_millis(4) {
                        delay *= 2;
                    }
                }
                Err(_) => break proc::Status::Signal(-2),
            }
        };
        (o.join().unwrap(), e.join().unwrap(), status)
    });
    let offset = f.stream_position()?;
    let _ = std::fs::remove_dir_all(&dir);
    Ok(ChildResult { status, stdout, stderr, offset, wall: t0.elapsed() })
}

pub fn check(c: &Case10, st: &mut Stats, hv: &std::path::Path, scratch: &std::path::Path) -> CheckResult {
    let text = c.prog.text();
    let cmds = c.prog.mcmds();
    let n = cmds.len().max(1);
    // speculation horizon of the optimiser: <= 100 jumps per top-level command
    let horizon = (100 * n * n).min(30_000);
    // (the model goes on past outputs >= 2^32 - what is written there is unspecified, but the values keep growing)
    let m = run_model_opts(&cmds, Default::default(), horizon, 25, false, true);
    if std::env::var("HV_DEBUG").is_ok() {
        eprintln!("c10 debug: horizon {} end {:?} steps {} max_size9 {} first_io {:?}", horizon, m.end, m.steps, m.flags.max_size9, m.flags.first_io_pop);
    }
    if matches!(m.end, End::Stop(Stop::TooBig)) {
        st.exclude("values explode within the speculation horizon");
        return Ok(());
    }
    let r = match run_child(hv, scratch, &text, c.level, 20) {
        Ok(r) => r,
        Err(e) => {
            st.trouble(format!("cannot run the optimize child: {}", e));
            return Ok(());
        }
    };
    let tag = |s: &str| format!("c10:O{}-{}", c.level, s);
    match r.status {
        proc::Status::Timeout => {
            st.trouble("wall-clock watchdog fired on the optimize child");
            return Ok(());
        }
        proc::Status::Signal(sig) if sig == libc::SIGXCPU || sig == libc::SIGKILL => {
            fail!(&tag("no-finish"), "optimize(level {}) did not return within 20 s of CPU time on a {}-command program with small values (signal {})", c.level, n, sig)
        }
        proc::Status::Signal(sig) => fail!(&tag("crash"), "optimize(level {}) died with signal {}; stderr {:?}", c.level, sig, String::from_utf8_lossy(&r.stderr)),
        proc::Status::Code(code) => {
            let out = String::from_utf8_lossy(&r.stdout).into_owned();
            let err = String::from_utf8_lossy(&r.stderr).into_owned();
            if code == 101 {
                fail!(&tag("panic"), "optimize(level {}) panicked: {:?}", c.level, err);
            }
            ensure!(out.starts_with(MARKER) || code != 0, &tag("exit"), "the process ended with status 0 without optimize() returning (stdout {:?}): the program's exit was performed", out);
            ensure!(code == 0, &tag("exit"), "the process was terminated with status {} from inside optimize() (stdout {:?}, stderr {:?})", code, out, err);
            let rest = &out[MARKER.len()..];
            let nums: Vec<&str> = rest.split_whitespace().collect();
            ensure!(nums.len() == 2 && nums.iter().all(|x| x.parse::<i64>().is_ok()), &tag("stdout"), "optimize() wrote to standard output: {:?}", out);
            ensure!(r.stderr.is_empty(), &tag("stderr"), "optimize() wrote to standard error: {:?}", err);
            ensure!(r.offset == 0, &tag("stdin"), "optimize() read from standard input: the shared file offset moved to {}", r.offset);
            let residual: i64 = nums[1].parse().unwrap();
            if c.level == 2 {
                st.class(if residual < 0 {
                    "level 2: optimize returned an error value"
                } else if residual == 0 {
                    "level 2: fully pre-executed"
                } else if (residual as usize) < n {
                    "level 2: partial prefix"
                } else {
                    "level 2: nothing pre-executed"
                });
            }
        }
    }
    st.class(&format!("level {}", c.level));
    if let Some(ctx) = &m.flags.first_io_pop {
        st.class(&format!("first I/O-stack pop in {}", ctx));
    }
    let would_io = m.flags.first_io_pop.is_some();
    if m.end == End::Budget {
        st.class("loops past the horizon (small values)");
    }
    if would_io || m.end == End::Budget {
        st.nontrivial(&(&c.prog.cmds, c.level), || json!({"program": text, "level": c.level, "first_io_pop": m.flags.first_io_pop, "loops": m.end == End::Budget}));
    }
    Ok(())
}

pub fn profile(max_len: usize) -> Profile {
    Profile { io_heavy: true, many_stacks: false, big_counts: false, ..Profile::general(max_len) }
}

fn strategy(max_len: usize) -> BoxedStrategy<Case10> {
    // programs whose first command already reads or exits, plus general io-heavy programs
    let lead = prop_oneof![
        6 => Just(Vec::new()),
        1 => (0usize..=2, small_area()).prop_map(|(d, a)| vec![crate::refparse::RCmd::with_area(5, 1, d, a)]),
    ];
    // 흑 selecting an I/O stack directly followed by a 형 whose area pops: the pop happens in the area of a non-selecting command
    let op_area = prop::collection::vec(prop::collection::vec(heart(), 1..=2), 2..=3);
    let snippet = (0u8..3, 0usize..=2, 1usize..3, 0usize..4, op_area, any::<u16>());
    (lead, program_with_jumps(&profile(max_len)), prop_oneof![1 => Just(0u8), 2 => Just(1u8), 8 => Just(2u8)], snippet)
        .prop_map(|(mut lead, mut rest, level, (on, io, h, d, area, at))| {
            if on == 0 {
                let pos = ((at as usize) * (rest.len() + 1)) >> 16;
                rest.insert(pos, crate::refparse::RCmd::with_area(0, h, d, area));
                rest.insert(pos, crate::refparse::RCmd::new(5, 1, io));
            }
            lead.extend(rest);
            Case10 { prog: ProgCase { cmds: lead, stdin: String::new() }, level }
        })
        .boxed()
}

pub fn run(ctx: &Ctx, out: &mut Outcome) {
    let t = ctx.tier;
    let hv = std::env::current_exe().unwrap_or_else(|_| ctx.verif.join("target/hv/release/hv"));
    let scratch = ctx.scratch.clone();
    let max_len = t.pick(30, 60);
    search::<Case10>(ctx, out, "optimize-child", t.pick(8_000, 120_000), &move || strategy(max_len), &move |c, st| check(c, st, &hv, &scratch));
}

pub fn replay(ctx: &Ctx, v: &Value) -> Result<CheckResult, String> {
    let hv = std::env::current_exe().unwrap_or_else(|_| ctx.verif.join("target/hv/release/hv"));
    let scratch = ctx.scratch.clone();
    replay_case::<Case10>(v, &move |c, st| check(c, st, &hv, &scratch))
}

pub fn gates(out: &Outcome, tier: Tier) -> Vec<String> {
    let mut v = Vec::new();
    let m = tier.pick(1, 8);
    for (class, min) in [
        ("level 0", 300u64),
        ("level 1", 800),
        ("level 2", 4000),
        ("first I/O-stack pop in area", 400),
        ("first I/O-stack pop in area-of-selecting-흑", 300),
        ("first I/O-stack pop in main:5", 300),
        ("first I/O-stack pop in main:1", 200),
        ("loops past the horizon (small values)", 300),
        ("level 2: partial prefix", 2000),
        ("level 2: fully pre-executed", 150),
    ] {
        if out.stats.get(class) < min * m {
            v.push(format!("class '{}' has {} cases, need >= {}", class, out.stats.get(class), min * m));
        }
    }
    let multi: u64 = out.stats.classes.iter().filter(|(k, _)| k.starts_with("first I/O-stack pop in main-multi")).map(|(_, v)| *v).sum();
    if multi < 200 * m {
        v.push(format!("only {} cases pop an I/O stack as one of several operands", multi));
    }
    v
}
