//! C06 — rationals compute exactly, stay canonical, NaN is absorbing.

use crate::engine::*;
use crate::numgen::*;
use crate::refnum::{RefRat, NAN_TEXT};
use crate::{ensure, fail};
use hyeong::number::num::Num;
use proptest::prelude::*;
use serde_json::{json, Value};

pub const RULE: &str = "cases = expression trees over add, mul, neg/minus, flip and the assign variants whose leaves are rationals \
built from limb vectors with a deliberate common factor (Num::from_big_num), Num::new, from_num, zero/one and three kinds of NaN; \
every node is compared with the reference rational (canonical text, is_nan, is_pos, floor; named forms and set_copy/set_move = operator form), the value is recomputed along an \
equivalent route and must be `==`, and an independent second expression must be `==` iff numerically equal; \
non-trivial = the result is a proper fraction or negative AND (a leaf had a common factor > 1 or >= 2 limbs); \
NaN-algebra cases (NaN op x, x op NaN, x in {0, 1, negative, fraction}) count as non-trivial when x is not NaN; \
distinct = distinct expression";

#[derive(Clone, Debug)]
pub struct Case6 {
    pub e: Expr,
    pub other: Expr,
}

impl Case for Case6 {
    fn to_json(&self) -> Value {
        json!({"e": self.e.to_json(), "other": self.other.to_json(), "e_value": self.e.eval_ref().text(), "other_value": self.other.eval_ref().text()})
    }
    fn from_json(v: &Value) -> Option<Self> {
        Some(Case6 { e: Expr::from_json(v.get("e")?)?, other: Expr::from_json(v.get("other")?)? })
    }
}

fn show(n: &Num) -> String {
    guarded("display", || format!("{}", n)).unwrap_or_else(|_| "<display panicked>".to_string())
}

/// compare one implementation value with the reference value
pub fn canonical(v: &Num, r: &RefRat, sig: &str, what: &dyn Fn() -> String) -> CheckResult {
    ensure!(v.is_nan() == r.is_nan(), sig, "{}: is_nan()={} but the value is {}", what(), v.is_nan(), r.text());
    let s = format!("{}", v);
    ensure!(s == r.text(), sig, "{}: prints `{}` want `{}`", what(), s, r.text());
    ensure!(v.to_string() == s, sig, "{}: to_string differs from Display", what());
    ensure!(v.is_pos() == r.is_nonneg(), sig, "{}: is_pos()={} for value {}", what(), v.is_pos(), r.text());
    if r.is_nan() {
        ensure!(s == NAN_TEXT, sig, "{}: NaN prints `{}`", what(), s);
    }
    if r.is_nonneg() {
        let f = format!("{}", v.floor());
        let want = r.floor().unwrap().to_dec();
        ensure!(f == want, sig, "{}: floor({}) = {} want {}", what(), r.text(), f, want);
    }
    Ok(())
}

/// another API form of the operation that produced `main` must give the very same number (compared without rendering)
fn same_form(alt: &Num, main: &Num, sig: &str, what: &dyn Fn() -> String) -> CheckResult {
    ensure!(alt.is_nan() == main.is_nan(), sig, "{}: is_nan()={} but the operator form gives {}", what(), alt.is_nan(), main);
    if !main.is_nan() {
        ensure!(alt == main && main == alt, sig, "{}: gives {} but the operator form gives {}", what(), alt, main);
    }
    ensure!(alt.is_pos() == main.is_pos(), sig, "{}: is_pos()={} but the operator form gives {}", what(), alt.is_pos(), main);
    Ok(())
}

/// evaluate both sides bottom-up, checking every intermediate value
fn eval_check(e: &Expr, st: &mut Stats) -> Result<(Num, RefRat), Failure> {
    let (v, r, sig): (Num, RefRat, &str) = match e {
        Expr::L(l) => (l.to_impl(), l.to_ref(), "c06:construct"),
        Expr::Add(a, b) => {
            let (va, ra) = eval_check(a, st)?;
            let (vb, rb) = eval_check(b, st)?;
            note_nan(st, "add", &ra, &rb);
            let main = &va + &vb;
            same_form(&Num::add(&va, &vb), &main, "c06:add-fn", &|| format!("Num::add({}, {})", ra.text(), rb.text()))?;
            (main, ra.add(&rb), "c06:add")
        }
        Expr::AddAssign(a, b) => {
            let (mut va, ra) = eval_check(a, st)?;
            let (vb, rb) = eval_check(b, st)?;
            note_nan(st, "add", &ra, &rb);
            va += &vb;
            (va, ra.add(&rb), "c06:add_assign")
        }
        Expr::Mul(a, b) => {
            let (va, ra) = eval_check(a, st)?;
            let (vb, rb) = eval_check(b, st)?;
            note_nan(st, "mul", &ra, &rb);
            let main = &va * &vb;
            same_form(&Num::mul(&va, &vb), &main, "c06:mul-fn", &|| format!("Num::mul({}, {})", ra.text(), rb.text()))?;
            (main, ra.mul(&rb), "c06:mul")
        }
        Expr::MulAssign(a, b) => {
            let (mut va, ra) = eval_check(a, st)?;
            let (vb, rb) = eval_check(b, st)?;
            note_nan(st, "mul", &ra, &rb);
            va *= &vb;
            (va, ra.mul(&rb), "c06:mul_assign")
        }
        Expr::Neg(a) => {
            let (va, ra) = eval_check(a, st)?;
            if ra.is_nan() {
                st.class("nan:neg(NaN)");
            }
            let main = -&va;
            same_form(&Num::neg(&va), &main, "c06:neg-fn", &|| format!("Num::neg({})", ra.text()))?;
            (main, ra.neg(), "c06:neg")
        }
        Expr::Minus(a) => {
            let (mut va, ra) = eval_check(a, st)?;
            va.minus();
            (va, ra.neg(), "c06:minus")
        }
        Expr::Flip(a) => {
            let (mut va, ra) = eval_check(a, st)?;
            if ra.is_nan() {
                st.class("nan:flip(NaN)");
            } else if ra == RefRat::zero() {
                st.class("nan:flip(0)");
            } else if !ra.is_nonneg() {
                st.class("flip of negative");
            }
            va.flip();
            (va, ra.recip(), "c06:flip")
        }
    };
    canonical(&v, &r, sig, &|| format!("{} node with value {}", sig, r.text()))?;
    // the two assignment helpers the in-place operators are built on
    let mut x = Num::one();
    x.set_copy(&v);
    same_form(&x, &v, "c06:set_copy", &|| format!("set_copy({})", r.text()))?;
    let mut y = Num::nan();
    y.set_move(v.clone());
    same_form(&y, &v, "c06:set_move", &|| format!("set_move({})", r.text()))?;
    Ok((v, r))
}

fn note_nan(st: &mut Stats, op: &str, a: &RefRat, b: &RefRat) {
    match (a.is_nan(), b.is_nan()) {
        (true, true) => st.class(&format!("nan:NaN {} NaN", op)),
        (true, false) => {
            st.class(&format!("nan:NaN {} x", op));
            if *b == RefRat::zero() {
                st.class(&format!("nan:NaN {} 0", op));
            }
        }
        (false, true) => {
            st.class(&format!("nan:x {} NaN", op));
            if *a == RefRat::zero() {
                st.class(&format!("nan:0 {} NaN", op));
            }
        }
        _ => {}
    }
}

pub fn check(c: &Case6, st: &mut Stats) -> CheckResult {
    let (v, r) = eval_check(&c.e, st)?;
    // same value along another route: structural equality must hold
    let alt = c.e.rewrite();
    let (v2, r2) = eval_check(&alt, st)?;
    if r != r2 {
        fail!("harness:rewrite", "harness defect: rewrite changed the value {} -> {}", r.text(), r2.text());
    }
    if !r.is_nan() {
        ensure!(v == v2 && v2 == v, "c06:eq-routes", "value {} computed along two routes is not `==` (prints `{}` and `{}`)", r.text(), show(&v), show(&v2));
        st.class("equal value via two routes");
    }
    // independent value: == iff numerically equal
    let (w, rw) = eval_check(&c.other, st)?;
    if !r.is_nan() && !rw.is_nan() {
        ensure!((v == w) == (r == rw), "c06:eq-numeric", "{} == {} reported {}", r.text(), rw.text(), v == w);
        st.class(if r == rw { "independent pair: equal" } else { "independent pair: different" });
    }
    // classes / non-triviality
    let mut leaves = Vec::new();
    c.e.leaves(&mut leaves);
    let interesting_leaf = leaves.iter().any(|l| l.has_common_factor() || l.multi_limb());
    if leaves.iter().any(|l| l.has_common_factor()) {
        st.class("leaf with common factor");
    }
    if leaves.iter().any(|l| l.multi_limb()) {
        st.class("leaf with >= 2 limbs");
    }
    match &r {
        RefRat::NaN => st.class("result: NaN"),
        x if !x.is_nonneg() && !x.is_integer() => st.class("result: negative fraction"),
        x if !x.is_nonneg() => st.class("result: negative integer"),
        x if !x.is_integer() => st.class("result: positive fraction"),
        _ => st.class("result: non-negative integer"),
    }
    let proper_or_neg = !r.is_nan() && (!r.is_integer() || !r.is_nonneg());
    if proper_or_neg && interesting_leaf && c.e.ops() >= 1 {
        st.nontrivial(&c.e, || json!({"expr": c.e.to_json(), "value": r.text()}));
    }
    Ok(())
}

/// NaN algebra: op(NaN-kind, x) and op(x, NaN-kind) for special x
fn nan_strategy() -> BoxedStrategy<Case6> {
    let nan = prop_oneof![Just(Leaf::NaN), Just(Leaf::FlipZero), Just(Leaf::NegNaN)];
    let x = prop_oneof![
        3 => Just(Leaf::Zero),
        1 => Just(Leaf::One),
        1 => Just(Leaf::Int(0)),
        1 => Just(Leaf::New { up: 0, down: 5 }),
        2 => finite_leaf(2),
        1 => nan.clone(),
    ];
    (nan, x, 0u8..8, any::<bool>())
        .prop_map(|(n, x, op, swap)| {
            let (a, b) = if swap { (Expr::L(x), Expr::L(n)) } else { (Expr::L(n), Expr::L(x)) };
            let e = match op {
                0 | 1 => Expr::Add(Box::new(a), Box::new(b)),
                2 | 3 => Expr::Mul(Box::new(a), Box::new(b)),
                4 => Expr::AddAssign(Box::new(a), Box::new(b)),
                5 => Expr::MulAssign(Box::new(a), Box::new(b)),
                6 => Expr::Flip(Box::new(Expr::Mul(Box::new(a), Box::new(b)))),
                _ => Expr::Neg(Box::new(Expr::Add(Box::new(a), Box::new(b)))),
            };
            Case6 { e, other: Expr::L(Leaf::One) }
        })
        .boxed()
}

fn check_nan_stage(c: &Case6, st: &mut Stats) -> CheckResult {
    check(c, st)?;
    let mut leaves = Vec::new();
    c.e.leaves(&mut leaves);
    if leaves.iter().any(|l| !l.to_ref().is_nan()) {
        st.nontrivial(&("nan", &c.e), || json!({"expr": c.e.to_json(), "value": c.e.eval_ref().text()}));
    }
    Ok(())
}

pub fn run(ctx: &Ctx, out: &mut Outcome) {
    let t = ctx.tier;
    let small = t.pick(2usize, 3usize);
    let wide = t.pick(4usize, 10usize);
    search::<Case6>(
        ctx,
        out,
        "expr-small",
        t.pick(20_000, 300_000),
        &move || {
            (expr(small, 3), expr(small, 1), 0u8..6)
                .prop_map(|(e, other, k)| {
                    // one case in six: the independent side is an equal value written differently
                    let other = if k == 0 { Expr::Add(Box::new(e.rewrite()), Box::new(Expr::L(Leaf::Zero))) } else { other };
                    Case6 { e, other }
                })
                .boxed()
        },
        &check,
    );
    search::<Case6>(
        ctx,
        out,
        "binop-wide",
        t.pick(10_000, 100_000),
        &move || (expr(wide, 1), expr(wide, 1)).prop_map(|(e, other)| Case6 { e, other }).boxed(),
        &check,
    );
    search::<Case6>(ctx, out, "nan-algebra", t.pick(4_000, 40_000), &nan_strategy, &check_nan_stage);
}

pub fn replay(_ctx: &Ctx, v: &Value) -> Result<CheckResult, String> {
    replay_case::<Case6>(v, &check)
}

pub fn gates(out: &Outcome, tier: Tier) -> Vec<String> {
    let mut v = Vec::new();
    let m = tier.pick(1, 8);
    for (class, min) in [
        ("result: negative fraction", 1000u64),
        ("result: positive fraction", 2000),
        ("result: NaN", 1000),
        ("leaf with common factor", 5000),
        ("leaf with >= 2 limbs", 3000),
        ("nan:NaN mul 0", 50),
        ("nan:0 mul NaN", 50),
        ("nan:flip(0)", 100),
        ("nan:flip(NaN)", 50),
        ("nan:neg(NaN)", 50),
        ("flip of negative", 500),
        ("independent pair: equal", 100),
        ("equal value via two routes", 10000),
    ] {
        if out.stats.get(class) < min * m {
            v.push(format!("class '{}' has {} cases, need >= {}", class, out.stats.get(class), min * m));
        }
    }
    v
}
