//! C11 — the debugger shows the true state, steps back exactly, and never crashes.

use super::c01::LineReader;
use crate::engine::*;
use crate::gen::*;
use crate::proc;
use crate::refexec::*;
use crate::refparse::RCmd;
use crate::{ensure, fail};
use hyeong::core::state::{State, UnOptState};
use hyeong::core::{execute, parse};
use proptest::prelude::*;
use serde_json::{json, Value};
use std::collections::BTreeSet;
use std::time::Duration;

pub const RULE: &str = "cases = (input-free program of <= 14 commands incl. loops, jumps, ♡ and exits through stack 1/2, written on one or several source lines, debugger command history of <= 40 lines \
over n/next p/previous r/run s/state b/break [N] h/help unknown-words blank lines, with N from 0..len+2, huge, non-numeric, empty; with or without a final exit). \
The program's trajectory (state after k commands for every k, output of every step) is computed once with the library interpreter in lock-step with the reference \
interpreter; the debugger model is then the position k on that trajectory plus the breakpoint set. The real transcript of `hyeong debug --color never` is cut at the \
prompts into one chunk per command and compared in projected form: `s` -> exact state dump of step k, `n` -> listed command index/location/raw text and the step's \
stdout/stderr text, `r` -> all output up to the stop, `b` -> the set of listed breakpoints; exit status must be the model's; status 101 / signal / panic text is a crash. \
A `run` the model cannot finish within its budget is cut from the history by construction (counted). non-trivial = (a `p` after >= 2 steps, or a run stopping at a \
breakpoint the history set, or `b N` with N >= len-1) and >= 1 `s`; distinct = distinct (program, history)";

#[derive(Clone, Debug, PartialEq, Eq, Hash)]
pub enum BArg {
    Num(usize),
    Huge,
    NonNumeric,
    Empty,
    Negative,
}

#[derive(Clone, Debug, PartialEq, Eq, Hash)]
pub enum Op {
    N(bool),
    P(bool),
    R(bool),
    S(bool),
    B(bool, Option<BArg>),
    H(bool),
    Unknown(u8),
    Blank,
    Exit,
}

impl Op {
    pub fn line(&self) -> String {
        let pick = |long: &bool, a: &str, b: &str| if *long { a.to_string() } else { b.to_string() };
        match self {
            Op::N(l) => pick(l, "next", "n"),
            Op::P(l) => pick(l, "previous", "p"),
            Op::R(l) => pick(l, "run", "r"),
            Op::S(l) => pick(l, "state", "s"),
            Op::H(l) => pick(l, "help", "h"),
            Op::B(l, None) => pick(l, "break", "b"),
            Op::B(l, Some(a)) => format!(
                "{} {}",
                pick(l, "break", "b"),
                match a {
                    BArg::Num(n) => n.to_string(),
                    BArg::Huge => "99999999999999999999999999".to_string(),
                    BArg::NonNumeric => "x1".to_string(),
                    BArg::Empty => " 1".to_string(),
                    BArg::Negative => "-1".to_string(),
                }
            ),
            Op::Unknown(k) => ["foo", "nn", "N", "quit", "break1", "ㅎ", "1"][*k as usize % 7].to_string(),
            Op::Blank => ["", " ", "   "][0].to_string(),
            Op::Exit => "exit".to_string(),
        }
    }
    fn to_json(&self) -> Value {
        json!(self.line())
    }
    fn from_line(s: &str) -> Option<Op> {
        let long = |x: &str| x.len() > 1;
        Some(match s {
            "n" | "next" => Op::N(long(s)),
            "p" | "previous" => Op::P(long(s)),
            "r" | "run" => Op::R(long(s)),
            "s" | "state" => Op::S(long(s)),
            "h" | "help" => Op::H(long(s)),
            "b" | "break" => Op::B(long(s), None),
            "" => Op::Blank,
            "exit" => Op::Exit,
            _ => {
                if let Some(rest) = s.strip_prefix("break ").or_else(|| s.strip_prefix("b ")) {
                    let l = s.starts_with("break");
                    let a = match rest {
                        "99999999999999999999999999" => BArg::Huge,
                        "x1" => BArg::NonNumeric,
                        " 1" => BArg::Empty,
                        "-1" => BArg::Negative,
                        n => BArg::Num(n.parse().ok()?),
                    };
                    Op::B(l, Some(a))
                } else {
                    let k = ["foo", "nn", "N", "quit", "break1", "ㅎ", "1"].iter().position(|x| *x == s)?;
                    Op::Unknown(k as u8)
                }
            }
        })
    }
}

#[derive(Clone, Debug)]
pub struct Case11 {
    pub cmds: Vec<RCmd>,
    pub history: Vec<Op>,
    /// how the source file is laid out: 0 = one line; otherwise bit (i mod 16) says whether a line break (instead of a blank)
    /// follows command i, so that the locations the listings show move across lines and columns
    pub layout: u16,
}

impl Case11 {
    pub fn source(&self) -> String {
        if self.layout == 0 {
            return crate::refparse::render_canonical(&self.cmds);
        }
        let mut s = String::new();
        for (i, c) in self.cmds.iter().enumerate() {
            s.push_str(&crate::refparse::cmd_text(c));
            if i + 1 < self.cmds.len() {
                s.push(if (self.layout >> (i % 16)) & 1 == 1 { '\n' } else { ' ' });
            }
        }
        s
    }
}

impl Case for Case11 {
    fn to_json(&self) -> Value {
        let mut v = cmds_json(&self.cmds);
        v["history"] = Value::Array(self.history.iter().map(|o| o.to_json()).collect());
        v["layout"] = json!(self.layout);
        v["program"] = json!(self.source());
        v
    }
    fn from_json(v: &Value) -> Option<Self> {
        let cmds = v.get("cmds")?.as_array()?.iter().map(RCmd::from_json).collect::<Option<Vec<_>>>()?;
        let history = v.get("history")?.as_array()?.iter().map(|x| x.as_str().and_then(Op::from_line)).collect::<Option<Vec<_>>>()?;
        let layout = v.get("layout").and_then(|x| x.as_u64()).unwrap_or(0) as u16;
        Some(Case11 { cmds, history, layout })
    }
}

/// one step of the trajectory
#[derive(Clone, Debug)]
pub struct Step {
    pub loc: usize,
    pub out: String,
    pub err: String,
}

#[derive(Clone, Debug, PartialEq)]
pub enum TrajEnd {
    /// control passed the last command after `steps.len()` steps
    Finished,
    /// step number `steps.len()` (0-based) requests an exit; its partial output is in exit_out / exit_err
    Exit(i32),
    Budget,
    Unsupported(&'static str),
}

pub struct Trajectory {
    pub steps: Vec<Step>,
    /// dumps[k] = displayed state after k steps, only for the k requested by `want`
    pub dumps: std::collections::HashMap<usize, String>,
    /// location of the next command after k steps
    pub locs: Vec<usize>,
    pub end: TrajEnd,
    pub exit_out: String,
    pub exit_err: String,
    pub exit_loc: usize,
    /// largest number of values alive on all stacks at any point (size of one debugger snapshot)
    pub max_values: usize,
}

pub fn safe_output(s: &str) -> bool {
    !s.chars().any(|c| matches!(c, '\n' | '\r' | '>' | '[' | '\u{85}' | '\u{2028}' | '\u{2029}' | '\u{0B}' | '\u{0C}'))
}

/// run the program on the library interpreter in lock-step with the reference interpreter
pub fn trajectory(text: &str, budget: usize, want: &dyn Fn(usize) -> bool) -> Result<Trajectory, Failure> {
    let codes = guarded("parse", || parse::parse(text.to_string()))?;
    let cmds = super::c01::model_cmds(&codes);
    let mut model = Model::new(cmds.clone(), "");
    model.size_cap9 = 7;
    let mut state = UnOptState::new();
    for c in &codes {
        state.push_code(c.clone());
    }
    let mut reader = LineReader(Default::default());
    let mut t = Trajectory { steps: Vec::new(), dumps: Default::default(), locs: vec![0], end: TrajEnd::Finished, exit_out: String::new(), exit_err: String::new(), exit_loc: 0, max_values: 0 };
    if want(0) {
        t.dumps.insert(0, format!("{:?}", state));
    }
    let mut loc = 0usize;
    let mut slot = Some(state);
    loop {
        if loc >= cmds.len() {
            t.end = TrajEnd::Finished;
            break;
        }
        if t.steps.len() >= budget {
            t.end = TrajEnd::Budget;
            break;
        }
        let (o0, e0) = (model.out.len(), model.err.len());
        match model.step(loc) {
            Err(Stop::Exit(code)) => {
                t.end = TrajEnd::Exit(code);
                t.exit_out = model.out[o0..].to_string();
                t.exit_err = model.err[e0..].to_string();
                t.exit_loc = loc;
                break;
            }
            Err(Stop::Encoding(_)) => {
                t.end = TrajEnd::Unsupported("output-encoding error (not part of the C11 claim)");
                break;
            }
            Err(_) => {
                t.end = TrajEnd::Unsupported("value outside the harness bounds");
                break;
            }
            Ok(next) => {
                let mut out: Vec<u8> = Vec::new();
                let mut err: Vec<u8> = Vec::new();
                let st = slot.take().unwrap();
                let res = guarded("execute_one", || execute::execute_one(&mut reader, &mut out, &mut err, st, loc))?;
                let (st, got_next) = match res {
                    Ok(x) => x,
                    Err(e) => return Err(Failure::new("c11:interpreter", format!("library interpreter failed where the definition continues: {}", e))),
                };
                if got_next != next || out != model.out[o0..].as_bytes() || err != model.err[e0..].as_bytes() {
                    t.end = TrajEnd::Unsupported("library interpreter disagrees with the reference (reported by C01)");
                    break;
                }
                t.max_values = t.max_values.max(model.total_values());
                t.steps.push(Step { loc, out: model.out[o0..].to_string(), err: model.err[e0..].to_string() });
                if want(t.steps.len()) {
                    t.dumps.insert(t.steps.len(), format!("{:?}", st));
                }
                t.locs.push(next);
                slot = Some(st);
                loc = next;
            }
        }
    }
    Ok(t)
}

/// what the model expects for one consumed command line
#[derive(Clone, Debug, PartialEq)]
pub enum Chunk {
    /// nothing that is compared (log / error wording)
    Ignore,
    /// the state after k steps must be displayed
    State(usize),
    Next { index: usize, out: String, err: String },
    Run { out: String, err: String },
    Breakpoints(Vec<usize>),
    /// the prompt at which end of input was read
    Eof,
}

pub struct Expected {
    pub chunks: Vec<Chunk>,
    pub lines: Vec<String>,
    pub status: i32,
    pub truncated_runs: usize,
    pub flags: Vec<&'static str>,
    /// number of program steps the session makes the debugger execute (work estimate)
    pub steps_executed: usize,
}

pub fn simulate(t: &Trajectory, n_cmds: usize, history: &[Op]) -> Expected {
    let mut k = 0usize; // steps taken (depth of the snapshot stack - 1)
    let mut bps: BTreeSet<usize> = BTreeSet::new();
    bps.insert(0);
    let mut user_bps: BTreeSet<usize> = BTreeSet::new();
    let mut e = Expected { chunks: Vec::new(), lines: Vec::new(), status: 0, truncated_runs: 0, flags: Vec::new(), steps_executed: 0 };
    let mut steps_seen = 0usize;
    if n_cmds == 0 {
        // nothing to debug: the session ends before the first prompt
        return e;
    }
    for op in history {
        let line = op.line();
        let trimmed = line.trim().to_string();
        let toks: Vec<&str> = trimmed.split(' ').collect();
        match toks[0] {
            "n" | "next" => {
                e.lines.push(line.clone());
                if k == t.steps.len() {
                    // the next step is the end of the trajectory
                    match t.end {
                        TrajEnd::Exit(code) => {
                            e.chunks.push(Chunk::Next { index: t.exit_loc, out: t.exit_out.clone(), err: t.exit_err.clone() });
                            e.status = code;
                            e.flags.push("session ends by program exit");
                            return e;
                        }
                        _ => {
                            // Budget / Unsupported: cut here (do not send this command)
                            e.lines.pop();
                            e.truncated_runs += 1;
                            break;
                        }
                    }
                }
                let s = &t.steps[k];
                e.chunks.push(Chunk::Next { index: s.loc, out: s.out.clone(), err: s.err.clone() });
                k += 1;
                e.steps_executed += 1;
                steps_seen = steps_seen.max(k);
                if t.locs[k] >= n_cmds {
                    e.flags.push("stepped past the last command");
                    return e;
                }
            }
            "p" | "previous" => {
                e.lines.push(line.clone());
                e.chunks.push(Chunk::Ignore);
                if k > 0 {
                    if k >= 2 {
                        e.flags.push("previous after >= 2 steps");
                    }
                    k -= 1;
                    if k == 0 {
                        e.flags.push("back at the start");
                    }
                } else {
                    e.flags.push("previous at the start");
                }
            }
            "r" | "run" => {
                // look ahead: can the model bring this run to a stop?
                let mut j = k;
                let (mut out, mut err) = (String::new(), String::new());
                let mut first = true;
                let outcome = loop {
                    // a breakpoint on the next command stops the run before that command is executed
                    if !first && (bps.contains(&t.locs[j]) || t.locs[j] >= n_cmds) {
                        break Some(None);
                    }
                    if j == t.steps.len() {
                        break match t.end {
                            TrajEnd::Exit(code) => {
                                out.push_str(&t.exit_out);
                                err.push_str(&t.exit_err);
                                Some(Some(code))
                            }
                            TrajEnd::Finished => Some(None),
                            _ => None,
                        };
                    }
                    first = false;
                    out.push_str(&t.steps[j].out);
                    err.push_str(&t.steps[j].err);
                    j += 1;
                };
                match outcome {
                    None => {
                        e.truncated_runs += 1;
                        break;
                    }
                    Some(exit) => {
                        e.lines.push(line.clone());
                        e.chunks.push(Chunk::Run { out, err });
                        e.steps_executed += j - k + 1;
                        if let Some(code) = exit {
                            e.status = code;
                            e.flags.push("run ends by program exit");
                            return e;
                        }
                        k = j;
                        if t.locs[k] >= n_cmds {
                            e.flags.push("run to the end of the program");
                            return e;
                        }
                        if user_bps.contains(&t.locs[k]) {
                            e.flags.push("run stops at a breakpoint set by the history");
                        } else {
                            e.flags.push("run stops at breakpoint 0");
                        }
                    }
                }
            }
            "s" | "state" => {
                e.lines.push(line.clone());
                e.chunks.push(Chunk::State(k));
                e.flags.push("state shown");
            }
            "b" | "break" => {
                e.lines.push(line.clone());
                if toks.len() < 2 {
                    e.chunks.push(Chunk::Breakpoints(bps.iter().cloned().collect()));
                    e.flags.push("breakpoints listed");
                } else {
                    e.chunks.push(Chunk::Ignore);
                    if let Ok(n) = toks[1].parse::<usize>() {
                        if n + 1 >= n_cmds {
                            e.flags.push("break N with N >= len-1");
                        }
                        if n < n_cmds {
                            if !bps.remove(&n) {
                                bps.insert(n);
                                user_bps.insert(n);
                            } else {
                                user_bps.remove(&n);
                            }
                        } else if n == n_cmds {
                            e.flags.push("break N with N == len");
                        }
                    }
                }
            }
            "exit" => {
                e.lines.push(line.clone());
                e.chunks.push(Chunk::Ignore);
                e.flags.push("exit command");
                return e;
            }
            _ => {
                e.lines.push(line.clone());
                e.chunks.push(Chunk::Ignore);
            }
        }
    }
    // end of input: one more prompt, then the debugger leaves with status 0
    e.chunks.push(Chunk::Eof);
    e.flags.push("ends at end of input");
    e
}

/// presentation details of the debugger / the interactive interpreter that are not part of any property (prompt text, the tags in
/// front of program output): *calibrated* once per run on a program with known output instead of being hard-coded
#[derive(Clone, Debug)]
pub struct Calib {
    pub prompt: String,
    pub out_tag: String,
    pub err_tag: String,
    /// common prefix of the tool's informational log lines (`==> `); such lines are never compared
    pub log_prefix: String,
}

impl Calib {
    pub fn default_() -> Calib {
        Calib { prompt: "> ".to_string(), out_tag: "[stdout] ".to_string(), err_tag: "[stderr] ".to_string(), log_prefix: "==> ".to_string() }
    }
}

static DBG_CALIB: std::sync::OnceLock<Calib> = std::sync::OnceLock::new();
static REPL_CALIB: std::sync::OnceLock<Calib> = std::sync::OnceLock::new();

/// program that writes `A` to stdout and then `B` to stderr
const CALIB_PROGRAM: &str = "혀어어어엉............. 항. 혀어어어어엉........... 항..";

pub fn calibrate(bin: &std::path::Path, scratch: &std::path::Path, repl: bool) -> Calib {
    let cell = if repl { &REPL_CALIB } else { &DBG_CALIB };
    cell.get_or_init(|| {
        let mut c = Calib::default_();
        let dir = proc::scratch_dir(scratch, "calib");
        let file = dir.join("p.hyeong");
        let _ = std::fs::write(&file, CALIB_PROGRAM);
        let run = |script: &str| -> Option<String> {
            let o = proc::RunOpts::new(script.as_bytes());
            let r = if repl { proc::run(bin, &["--color", "never"], &o) } else { proc::run(bin, &["--color", "never", "debug", file.to_str().unwrap()], &o) };
            r.ok().filter(|r| r.status == proc::Status::Code(0)).map(|r| r.out_str())
        };
        // prompt = what is written after the last complete line when the tool waits for the first command
        if let Some(t0) = run("") {
            let tail = t0.rsplit('\n').next().unwrap_or("");
            if !tail.is_empty() {
                c.prompt = tail.to_string();
            }
            // log prefix = common prefix of the complete lines printed before the first prompt (when there are >= 2 of them)
            let header: Vec<&str> = t0.split_inclusive('\n').filter(|l| l.ends_with('\n')).collect();
            if header.len() >= 2 {
                let mut pre: String = header[0].to_string();
                for l in &header {
                    let n = pre.chars().zip(l.chars()).take_while(|(a, b)| a == b).count();
                    pre = pre.chars().take(n).collect();
                }
                if pre.chars().count() >= 3 {
                    c.log_prefix = pre;
                }
            }
        }
        let script = if repl { format!("{}\n", CALIB_PROGRAM) } else { "r\n".to_string() };
        if let Some(t) = run(&script) {
            for line in t.lines() {
                let line = line.strip_prefix(c.prompt.as_str()).unwrap_or(line);
                if let Some(tag) = line.strip_suffix('A') {
                    if !tag.is_empty() && !tag.contains(CALIB_PROGRAM) {
                        c.out_tag = tag.to_string();
                    }
                } else if let Some(tag) = line.strip_suffix('B') {
                    if !tag.is_empty() {
                        c.err_tag = tag.to_string();
                    }
                }
            }
        }
        let _ = std::fs::remove_dir_all(&dir);
        c
    })
    .clone()
}

/// cut the transcript into the text that follows each prompt
pub fn split_transcript(text: &str, prompt: &str) -> (String, Vec<String>) {
    let mut header = String::new();
    let mut chunks: Vec<String> = Vec::new();
    for line in text.split_inclusive('\n') {
        let mut rest = line;
        while let Some(r) = rest.strip_prefix(prompt) {
            chunks.push(String::new());
            rest = r;
        }
        match chunks.last_mut() {
            Some(c) => c.push_str(rest),
            None => header.push_str(rest),
        }
    }
    (header, chunks)
}

fn outputs_of(chunk_lines: &[&str], cal: &Calib) -> Result<(String, String), String> {
    let (mut out, mut err) = (String::new(), String::new());
    for l in chunk_lines {
        if let Some(x) = l.strip_prefix(cal.out_tag.as_str()) {
            out.push_str(x);
        } else if let Some(x) = l.strip_prefix(cal.err_tag.as_str()) {
            err.push_str(x);
        } else if !l.is_empty() {
            return Err(format!("unexpected line {:?}", l));
        }
    }
    Ok((out, err))
}

/// index shown at the start of a listing line
fn listing_index(line: &str) -> Option<usize> {
    let t = line.trim_start();
    let digits: String = t.chars().take_while(|c| c.is_ascii_digit()).collect();
    if digits.is_empty() {
        None
    } else {
        digits.parse().ok()
    }
}

pub fn check(c: &Case11, st: &mut Stats, bin: &std::path::Path, scratch: &std::path::Path, budget: usize) -> CheckResult {
    let text = c.source();
    // pass 1: the trajectory without state dumps (rendering thousands of states is the expensive part) ...
    let t = trajectory(&text, budget, &|_| false)?;
    if let TrajEnd::Unsupported(why) = t.end {
        st.exclude(why);
        return Ok(());
    }
    if !t.steps.iter().all(|s| safe_output(&s.out) && safe_output(&s.err)) || !safe_output(&t.exit_out) || !safe_output(&t.exit_err) {
        st.exclude("program output contains a character that makes the transcript ambiguous (line break, '>' or '[')");
        return Ok(());
    }
    let n = c.cmds.len();
    let exp = simulate(&t, n, &c.history);
    // ... pass 2: the same trajectory again, rendering only the states the history asks to see
    let needed: std::collections::HashSet<usize> = exp.chunks.iter().filter_map(|c| if let Chunk::State(k) = c { Some(*k) } else { None }).collect();
    let t = if needed.is_empty() { t } else { trajectory(&text, budget, &|k| needed.contains(&k))? };
    st.class_n("truncated runs (model budget)", exp.truncated_runs as u64);
    let mut script = exp.lines.join("\n");
    if !exp.lines.is_empty() {
        script.push('\n');
    }
    let dir = proc::scratch_dir(scratch, "c11");
    let file = dir.join("p.hyeong");
    if let Err(e) = std::fs::write(&file, &text) {
        st.trouble(format!("scratch write: {}", e));
        return Ok(());
    }
    let mut o = proc::RunOpts::new(script.as_bytes());
    o.cpu_secs = Some(20);
    o.wall = Duration::from_secs(120);
    let r = proc::run(bin, &["--color", "never", "debug", file.to_str().unwrap()], &o);
    let _ = std::fs::remove_dir_all(&dir);
    let r = match r {
        Ok(r) => r,
        Err(e) => {
            st.trouble(format!("cannot spawn hyeong: {}", e));
            return Ok(());
        }
    };
    let shown_script = || exp.lines.join(" | ");
    match r.status {
        proc::Status::Timeout => {
            st.trouble("wall-clock watchdog fired on `hyeong debug`");
            return Ok(());
        }
        proc::Status::Signal(sig) if (sig == libc::SIGXCPU || sig == libc::SIGKILL) && exp.steps_executed * (1 + text.len() / 64 + t.max_values) > 2_000_000 => {
            // the debugger keeps a full snapshot per executed step: long sessions on long programs are legitimately expensive;
            // the harness's own CPU limit cannot judge them
            st.exclude("session too heavy for the fixed CPU limit (steps x program size)");
            return Ok(());
        }
        proc::Status::Signal(s) => fail!("c11:crash", "`hyeong debug` was killed by signal {} on script [{}] ({} program steps expected)", s, shown_script().chars().take(300).collect::<String>(), exp.steps_executed),
        proc::Status::Code(code) => {
            let err = r.err_str();
            ensure!(code != 101 && !err.contains("panicked at"), "c11:crash", "`hyeong debug` panicked (status {}) on script [{}]: {:?}", code, shown_script(), err.chars().take(300).collect::<String>());
            ensure!(code == exp.status, "c11:status", "`hyeong debug` ended with status {} want {} on script [{}]; stderr {:?}", code, exp.status, shown_script(), err);
        }
    }
    let transcript = r.out_str();
    let cal = calibrate(bin, scratch, false);
    let (_, chunks) = split_transcript(&transcript, &cal.prompt);
    ensure!(chunks.len() == exp.chunks.len(), "c11:prompts", "the debugger prompted {} times, the model expects {} on script [{}]; transcript {:?}", chunks.len(), exp.chunks.len(), shown_script(), transcript);
    for (i, (got, want)) in chunks.iter().zip(exp.chunks.iter()).enumerate() {
        let cmd = exp.lines.get(i).cloned().unwrap_or_else(|| "<end of input>".to_string());
        let at = || format!("command #{} `{}` of script [{}]", i, cmd, shown_script());
        // informational log lines of the tool are presentation: drop them before comparing
        let got_owned: String = got.split_inclusive('\n').filter(|l| !l.starts_with(cal.log_prefix.as_str())).collect();
        let got = &got_owned;
        let lines: Vec<&str> = got.lines().collect();
        match want {
            Chunk::Ignore => {
                ensure!(!lines.iter().any(|l| l.starts_with(cal.out_tag.as_str()) || l.starts_with(cal.err_tag.as_str())), "c11:output", "{}: program output shown where none is due: {:?}", at(), got);
            }
            Chunk::Eof => ensure!(got.is_empty(), "c11:eof", "{}: text after the last prompt: {:?}", at(), got),
            Chunk::State(k) => {
                let dump = t.dumps.get(k).cloned().unwrap_or_default();
                ensure!(*got == dump, "c11:state", "{}: displayed state {:?} want {:?} (state after {} steps)", at(), got, dump, k)
            }
            Chunk::Next { index, out, err } => {
                ensure!(!lines.is_empty(), "c11:listing", "{}: no command listed", at());
                ensure!(listing_index(lines[0]) == Some(*index), "c11:listing", "{}: listed {:?}, the command to execute is #{}", at(), lines[0], index);
                match outputs_of(&lines[1..], &cal) {
                    Ok((o, e)) => {
                        ensure!(o == *out, "c11:output", "{}: stdout shown {:?} want {:?}", at(), o, out);
                        ensure!(e == *err, "c11:output", "{}: stderr shown {:?} want {:?}", at(), e, err);
                    }
                    Err(m) => fail!("c11:output", "{}: {}", at(), m),
                }
            }
            Chunk::Run { out, err } => match outputs_of(&lines, &cal) {
                Ok((o, e)) => {
                    ensure!(o == *out, "c11:output", "{}: stdout shown {:?} want {:?}", at(), o, out);
                    ensure!(e == *err, "c11:output", "{}: stderr shown {:?} want {:?}", at(), e, err);
                }
                Err(m) => fail!("c11:output", "{}: {}", at(), m),
            },
            Chunk::Breakpoints(list) => {
                let shown: Vec<usize> = lines.iter().filter_map(|l| listing_index(l)).collect();
                ensure!(shown == *list, "c11:breakpoints", "{}: listed breakpoints {:?} want {:?}", at(), shown, list);
                if list.len() >= 2 && text.contains('\n') {
                    st.class("breakpoint listing with >= 2 entries on a multi-line source");
                }
            }
        }
    }
    for f in &exp.flags {
        st.class(f);
    }
    st.class(match t.end {
        TrajEnd::Finished => "program: finishes",
        TrajEnd::Exit(_) => "program: exits through stack 1/2",
        TrajEnd::Budget => "program: loops past the budget",
        TrajEnd::Unsupported(_) => "program: unsupported",
    });
    if t.steps.iter().any(|s| !s.out.is_empty() || !s.err.is_empty()) {
        st.class("program writes output");
    }
    if text.contains('\n') {
        st.class("source on several lines");
    }
    if t.steps.iter().map(|s| s.out.len() + s.err.len()).sum::<usize>() > 4096 {
        st.class("program writes more than 4 KiB");
    }
    if exp.lines.iter().filter(|l| l.as_str() == "n" || l.as_str() == "next").count() >= 255 {
        st.class("history with >= 255 single steps");
    }
    let has = |f: &str| exp.flags.contains(&f);
    if has("state shown") && (has("previous after >= 2 steps") || has("run stops at a breakpoint set by the history") || has("break N with N >= len-1")) {
        st.nontrivial(&(&c.cmds, &exp.lines), || json!({"program": text, "script": exp.lines, "status": exp.status}));
    }
    Ok(())
}

fn op(len_hint: usize) -> BoxedStrategy<Op> {
    let barg = prop_oneof![
        8 => (0..len_hint + 3).prop_map(BArg::Num),
        1 => Just(BArg::Huge),
        1 => Just(BArg::NonNumeric),
        1 => Just(BArg::Empty),
        1 => Just(BArg::Negative),
    ];
    prop_oneof![
        8 => any::<bool>().prop_map(Op::N),
        4 => any::<bool>().prop_map(Op::P),
        4 => any::<bool>().prop_map(Op::R),
        5 => any::<bool>().prop_map(Op::S),
        5 => (any::<bool>(), barg.prop_map(Some)).prop_map(|(l, a)| Op::B(l, a)),
        2 => any::<bool>().prop_map(|l| Op::B(l, None)),
        1 => any::<bool>().prop_map(Op::H),
        1 => (0u8..7).prop_map(Op::Unknown),
        1 => Just(Op::Blank),
    ]
    .boxed()
}

fn strategy() -> BoxedStrategy<Case11> {
    let prog = prop_oneof![
        5 => program_with_jumps(&Profile::input_free(10)),
        // printable output: letters
        3 => (program_with_jumps(&Profile::input_free(6)), prop::collection::vec((1usize..=2, prop::sample::select(vec![(5usize, 13usize), (6, 11), (7, 7), (3, 11), (8, 9)])), 1..4)).prop_map(|(mut p, prints)| {
            for (i, (target, (h, d))) in prints.into_iter().enumerate() {
                let pos = (i * 3).min(p.len());
                p.insert(pos, RCmd::new(1, 1, target));
                p.insert(pos, RCmd::new(0, h, d));
            }
            p
        }),
        1 => (program_with_jumps(&Profile::input_free(5)), 1usize..=2).prop_map(|(mut p, w)| {
            p.extend(idiom_exit(w));
            p
        }),
    ];
    let layout = prop_oneof![2 => Just(0u16), 3 => any::<u16>(), 1 => prop::sample::select(vec![0x8000u16, 0x0100, 0x4040, 0xFFFF])];
    (prog, any::<bool>(), layout)
        .prop_flat_map(|(cmds, final_exit, layout)| {
            let n = cmds.len();
            (Just(cmds), prop::collection::vec(op(n), 0..40), Just(final_exit), Just(layout))
        })
        .prop_map(|(cmds, mut history, final_exit, layout)| {
            if final_exit {
                history.push(Op::Exit);
            }
            Case11 { cmds, history, layout }
        })
        .boxed()
}

/// long sessions: hundreds of steps before `run` / `previous` (step counts around 255/256/257 and 511/512), and programs
/// that write more than 4 KiB / 8 KiB of output inside one `run` (the debugger buffers program output between flushes)
fn long_strategy() -> BoxedStrategy<Case11> {
    let steps = prop::sample::select(vec![0usize, 3, 100, 254, 255, 256, 257, 300, 511, 512, 513]);
    // what a round prints: one-byte, three-byte, 3+2-byte and 4+1-byte groups (no power-of-two byte offset stays aligned with all of them)
    let printed = prop::sample::select(vec![vec![33u32], vec![0xAC00], vec![0xAC00, 0xE9], vec![0x1F600, 33], vec![0xE9, 33, 0xD7A3]]);
    (prop::sample::select(vec![38usize, 318, 702, 4222, 8318]), any::<bool>(), steps, 0usize..4, 0usize..4, prop::sample::select(vec![0usize, 1, 2, 5, 8]), any::<bool>(), printed)
        .prop_map(|(n, print_out, k, back, again, bp, tail_exit, printed)| {
            let mut cmds = idiom_loop_clean_chars(n, &printed, '♥');
            if !print_out {
                // print to stderr instead
                for c in cmds.iter_mut() {
                    if c.kind == 1 && c.h == 1 && c.d == 1 {
                        c.d = 2;
                    }
                }
            }
            cmds.push(RCmd::new(0, 6, 11));
            cmds.push(RCmd::new(1, 1, 1));
            let mut h = Vec::new();
            if bp > 0 {
                h.push(Op::B(false, Some(BArg::Num(bp))));
            }
            for _ in 0..k {
                h.push(Op::N(false));
            }
            h.push(Op::S(false));
            h.push(Op::R(false));
            for _ in 0..back {
                h.push(Op::P(false));
            }
            h.push(Op::S(false));
            for _ in 0..again {
                h.push(Op::N(false));
            }
            h.push(Op::S(false));
            if bp > 0 {
                h.push(Op::B(false, Some(BArg::Num(bp))));
            }
            h.push(Op::R(true));
            h.push(Op::S(true));
            if tail_exit {
                h.push(Op::Exit);
            }
            Case11 { cmds, history: h, layout: 0 }
        })
        .boxed()
}

pub fn run(ctx: &Ctx, out: &mut Outcome) {
    let t = ctx.tier;
    let bin = ctx.hyeong_bin();
    let scratch = ctx.scratch.clone();
    {
        let (bin, scratch) = (bin.clone(), scratch.clone());
        search::<Case11>(ctx, out, "long-sessions", t.pick(160, 1_200), &long_strategy, &move |c, st| check(c, st, &bin, &scratch, 90_000));
    }
    let budget = t.pick(400, 3000);
    search::<Case11>(ctx, out, "debugger-sessions", t.pick(20_000, 250_000), &strategy, &move |c, st| check(c, st, &bin, &scratch, budget));
}

pub fn replay(ctx: &Ctx, v: &Value) -> Result<CheckResult, String> {
    let bin = ctx.hyeong_bin();
    let scratch = ctx.scratch.clone();
    replay_case::<Case11>(v, &move |c, st| check(c, st, &bin, &scratch, 3000))
}

pub fn gates(out: &Outcome, tier: Tier) -> Vec<String> {
    let mut v = Vec::new();
    let m = tier.pick(1, 8);
    for (class, min) in [
        ("state shown", 4000u64),
        ("previous after >= 2 steps", 1500),
        ("previous at the start", 500),
        ("back at the start", 500),
        ("run stops at a breakpoint set by the history", 300),
        ("run to the end of the program", 500),
        ("run ends by program exit", 100),
        ("session ends by program exit", 50),
        ("break N with N >= len-1", 1500),
        ("break N with N == len", 500),
        ("breakpoints listed", 1500),
        ("program writes output", 2000),
        ("program: loops past the budget", 300),
        ("ends at end of input", 1000),
        ("program writes more than 4 KiB", 20),
        ("history with >= 255 single steps", 30),
        ("exit command", 1000),
        ("source on several lines", 5000),
        ("breakpoint listing with >= 2 entries on a multi-line source", 800),
    ] {
        if out.stats.get(class) < min * m {
            v.push(format!("class '{}' has {} cases, need >= {}", class, out.stats.get(class), min * m));
        }
    }
    v
}
