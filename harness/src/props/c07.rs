//! C07 — comparison of rationals is the numeric order; NaN is unordered; branch selection.

use crate::engine::*;
use crate::numgen::*;
use crate::refnum::{RefInt, RefRat};
use crate::refparse::{shape_text, shape_to_area, parse_shape, AreaShape, RArea};
use crate::{ensure, fail};
use hyeong::core::area;
use hyeong::number::num::Num;
use proptest::prelude::*;
use serde_json::{json, Value};
use std::cmp::Ordering;

pub const RULE: &str = "pair cases = ordered pairs of rationals (independent; equal value written differently; value vs its \
floor / truncation / ceiling; same numerator different denominators; value vs value ± tiny; NaN on either or both sides), \
compared with the reference order in both directions plus ==, <, <=, >, >=; branch cases = (grammar-shaped area tree, count 0..50, \
popped values placed around the count incl. fractions within 1 of it, negatives and NaN) run through area::calc and compared with the \
definition (selected heart and number of values consumed); non-trivial pair = neither side is 0 and not both sides the same \
expression; non-trivial branch = count != 0 and at least one operator evaluated; distinct = distinct case";

#[derive(Clone, Debug)]
pub enum Case7 {
    Pair { x: Expr, y: Expr },
    Branch { area: AreaShape, count: usize, values: Vec<Expr> },
}

impl Case for Case7 {
    fn to_json(&self) -> Value {
        match self {
            Case7::Pair { x, y } => json!({"kind":"pair","x":x.to_json(),"y":y.to_json(),"x_value":x.eval_ref().text(),"y_value":y.eval_ref().text()}),
            Case7::Branch { area, count, values } => json!({
                "kind":"branch","area":shape_text(area),"count":count,
                "values": values.iter().map(|v| v.to_json()).collect::<Vec<_>>(),
                "values_text": values.iter().map(|v| v.eval_ref().text()).collect::<Vec<_>>(),
            }),
        }
    }
    fn from_json(v: &Value) -> Option<Self> {
        match v.get("kind")?.as_str()? {
            "pair" => Some(Case7::Pair { x: Expr::from_json(v.get("x")?)?, y: Expr::from_json(v.get("y")?)? }),
            "branch" => Some(Case7::Branch {
                area: parse_shape(v.get("area")?.as_str()?)?,
                count: v.get("count")?.as_u64()? as usize,
                values: v.get("values")?.as_array()?.iter().map(Expr::from_json).collect::<Option<Vec<_>>>()?,
            }),
            _ => None,
        }
    }
}

fn int_leaf(r: &RefInt) -> Expr {
    Expr::L(Leaf::Frac { p: Big::from_ref(r), q: Big { neg: false, limbs: vec![1] }, k: Big { neg: false, limbs: vec![1] } })
}

fn pair_strategy(max: usize) -> BoxedStrategy<Case7> {
    let indep = (leaf(max), leaf(max)).prop_map(|(a, b)| (Expr::L(a), Expr::L(b)));
    let same = finite_leaf(max).prop_map(|a| {
        let x = Expr::L(a);
        let y = x.rewrite();
        (x, y)
    });
    // value against the integers around it
    let around = (finite_leaf(max), 0u8..5).prop_map(|(a, mode)| {
        let r = a.to_ref();
        let fl = r.floor().unwrap();
        let y = match mode {
            0 => fl,
            1 => fl.add(&RefInt::one()),
            2 => fl.sub(&RefInt::one()),
            3 => {
                // truncation toward zero
                let (n, d) = r.parts().unwrap();
                n.divrem_trunc(d).0
            }
            _ => fl.add(&RefInt::from_i128(2)),
        };
        (Expr::L(a), int_leaf(&y))
    });
    // same numerator, different denominators / same denominator, different numerators
    let same_num = (big(max), big_nonzero(max), big_nonzero(max), big(max), any::<bool>()).prop_map(|(p, q1, q2, p2, same_den)| {
        let one = Big { neg: false, limbs: vec![1] };
        let mk = |p: &Big, q: &Big| {
            let mut q = q.clone();
            q.neg = false;
            Expr::L(Leaf::Frac { p: p.clone(), q, k: one.clone() })
        };
        if same_den {
            (mk(&p, &q1), mk(&p2, &q1))
        } else {
            (mk(&p, &q1), mk(&p, &q2))
        }
    });
    // x against x ± tiny
    let tiny = (finite_leaf(max), big_nonzero(max), any::<bool>()).prop_map(|(a, q, neg)| {
        let mut q = q;
        q.neg = false;
        let eps = Leaf::Frac { p: Big { neg, limbs: vec![1] }, q, k: Big { neg: false, limbs: vec![1] } };
        let x = Expr::L(a);
        let y = Expr::Add(Box::new(x.clone()), Box::new(Expr::L(eps)));
        (x, y)
    });
    // small dense values: many equal / adjacent pairs
    let dense = (-12i64..=12, 1u32..=6, -12i64..=12, 1u32..=6).prop_map(|(p1, q1, p2, q2)| {
        let mk = |p: i64, q: u32| {
            Expr::L(Leaf::Frac {
                p: Big { neg: p < 0, limbs: vec![p.unsigned_abs() as u32] },
                q: Big { neg: false, limbs: vec![q] },
                k: Big { neg: false, limbs: vec![1] },
            })
        };
        (mk(p1, q1), mk(p2, q2))
    });
    let with_nan = (leaf(max), prop_oneof![Just(Leaf::NaN), Just(Leaf::FlipZero), Just(Leaf::NegNaN)], any::<bool>()).prop_map(|(a, n, swap)| {
        if swap {
            (Expr::L(n), Expr::L(a))
        } else {
            (Expr::L(a), Expr::L(n))
        }
    });
    prop_oneof![
        5 => indep.boxed(),
        2 => same.boxed(),
        4 => around.boxed(),
        3 => same_num.boxed(),
        3 => tiny.boxed(),
        4 => dense.boxed(),
        1 => with_nan.boxed(),
    ]
    .prop_flat_map(|(x, y)| any::<bool>().prop_map(move |swap| if swap { Case7::Pair { x: y.clone(), y: x.clone() } } else { Case7::Pair { x: x.clone(), y: y.clone() } }))
    .boxed()
}

pub fn area_shape(max_ops: usize) -> BoxedStrategy<AreaShape> {
    let heart = prop_oneof![3 => Just(None), 6 => (2u8..=13).prop_map(Some)];
    // number of `?` segments and `!` slots such that operators <= max_ops
    let seg = prop::collection::vec(heart, 1..=4usize.min(max_ops + 1));
    prop::collection::vec(seg, 1..=5usize.min(max_ops + 1))
        .prop_map(move |mut v: AreaShape| {
            // trim to the operator budget
            let mut ops = 0usize;
            for s in v.iter_mut() {
                ops += 1;
                while s.len() > 1 && ops + s.len() - 1 > max_ops + 1 {
                    s.pop();
                }
                ops += s.len() - 1;
            }
            v
        })
        .boxed()
}

fn branch_strategy() -> BoxedStrategy<Case7> {
    (area_shape(8), 0usize..50, any::<bool>())
        .prop_flat_map(|(area, count, zero_count)| {
            let count = if zero_count { 0 } else { count };
            let c = count as i64;
            let val = prop_oneof![
                3 => Just(c),
                2 => Just(c - 1),
                2 => Just(c + 1),
                1 => -3i64..60,
            ]
            .prop_map(|n| Expr::L(Leaf::Int(n as isize)));
            let frac = (prop_oneof![Just(-1i64), Just(0), Just(1)], 2u32..6, 1u32..6).prop_map(move |(off, q, p)| {
                // count + off + p/q - 1  -> values within 1 of the count, on either side
                let num = (c + off - 1) * q as i64 + (p % q).max(1) as i64;
                Expr::L(Leaf::Frac {
                    p: Big { neg: num < 0, limbs: vec![num.unsigned_abs() as u32] },
                    q: Big { neg: false, limbs: vec![q] },
                    k: Big { neg: false, limbs: vec![1] },
                })
            });
            let v = prop_oneof![
                6 => val,
                4 => frac,
                2 => prop_oneof![Just(Leaf::NaN), Just(Leaf::FlipZero), Just(Leaf::NegNaN)].prop_map(Expr::L),
                1 => leaf(2).prop_map(Expr::L),
            ];
            prop::collection::vec(v, 0..12).prop_map(move |values| Case7::Branch { area: area.clone(), count, values })
        })
        .boxed()
}

/// the definition of branch selection: returns (selected heart or 0, values consumed)
pub fn ref_calc(area: &RArea, count: usize, mut pop: impl FnMut() -> RefRat) -> (u8, usize) {
    let cnt = RefRat::int(count as i128);
    let mut cur = area;
    let mut used = 0;
    loop {
        match cur {
            RArea::Nil => return (0, used),
            RArea::Heart(h) => return (*h, used),
            RArea::Q(l, r) => {
                used += 1;
                cur = if pop().cmp(&cnt) == Some(Ordering::Less) { l } else { r };
            }
            RArea::B(l, r) => {
                used += 1;
                cur = if pop().cmp(&cnt) == Some(Ordering::Equal) { l } else { r };
            }
        }
    }
}

pub fn check(c: &Case7, st: &mut Stats) -> CheckResult {
    match c {
        Case7::Pair { x, y } => {
            let (rx, ry) = (x.eval_ref(), y.eval_ref());
            let (vx, vy) = (x.eval_impl(), y.eval_impl());
            let want = rx.cmp(&ry);
            let got = vx.partial_cmp(&vy);
            ensure!(got == want, "c07:partial_cmp", "{} cmp {} reported {:?} want {:?}", rx.text(), ry.text(), got, want);
            let back = vy.partial_cmp(&vx);
            ensure!(back == want.map(|o| o.reverse()), "c07:partial_cmp", "{} cmp {} reported {:?} want {:?}", ry.text(), rx.text(), back, want.map(|o| o.reverse()));
            ensure!((vx < vy) == (want == Some(Ordering::Less)), "c07:lt", "{} < {} reported {}", rx.text(), ry.text(), vx < vy);
            ensure!((vx > vy) == (want == Some(Ordering::Greater)), "c07:gt", "{} > {} reported {}", rx.text(), ry.text(), vx > vy);
            ensure!((vx <= vy) == matches!(want, Some(Ordering::Less) | Some(Ordering::Equal)), "c07:le", "{} <= {} reported {}", rx.text(), ry.text(), vx <= vy);
            ensure!((vx >= vy) == matches!(want, Some(Ordering::Greater) | Some(Ordering::Equal)), "c07:ge", "{} >= {} reported {}", rx.text(), ry.text(), vx >= vy);
            ensure!((vx <= vy) == matches!(want, Some(Ordering::Less) | Some(Ordering::Equal)), "c07:le", "{} <= {} reported {}", rx.text(), ry.text(), vx <= vy);
            ensure!((vx >= vy) == matches!(want, Some(Ordering::Greater) | Some(Ordering::Equal)), "c07:ge", "{} >= {} reported {}", rx.text(), ry.text(), vx >= vy);
            if want.is_some() {
                ensure!((vx == vy) == (want == Some(Ordering::Equal)), "c07:eq", "{} == {} reported {}", rx.text(), ry.text(), vx == vy);
            }
            st.class(match want {
                None => "pair: unordered (NaN)",
                Some(Ordering::Less) => "pair: less",
                Some(Ordering::Equal) => "pair: equal",
                Some(Ordering::Greater) => "pair: greater",
            });
            if want.is_some() {
                let frac = |r: &RefRat| !r.is_integer();
                if frac(&rx) != frac(&ry) {
                    st.class("pair: fraction vs integer");
                    let (f, i) = if frac(&rx) { (&rx, &ry) } else { (&ry, &rx) };
                    if !f.is_nonneg() {
                        let (n, d) = f.parts().unwrap();
                        if RefRat::from_int(n.divrem_trunc(d).0) == *i {
                            st.class("pair: negative fraction vs its truncation");
                        }
                    }
                }
                if frac(&rx) && frac(&ry) {
                    st.class("pair: fraction vs fraction");
                }
                if !rx.is_nonneg() || !ry.is_nonneg() {
                    st.class("pair: a negative side");
                }
                if rx.size9().max(ry.size9()) >= 2 {
                    st.class("pair: multi-limb");
                }
            }
            let zero = RefRat::zero();
            if rx != zero && ry != zero && x != y {
                st.nontrivial(&(x, y), || json!({"x": rx.text(), "y": ry.text(), "order": format!("{:?}", want)}));
            }
            Ok(())
        }
        Case7::Branch { area, count, values } => {
            let tree = shape_to_area(area);
            let rvals: Vec<RefRat> = values.iter().map(|v| v.eval_ref()).collect();
            let mut i = 0usize;
            let (want, want_used) = ref_calc(&tree, *count, || {
                let v = rvals.get(i).cloned().unwrap_or(RefRat::NaN);
                i += 1;
                v
            });
            let ivals: Vec<Num> = values.iter().map(|v| v.eval_impl()).collect();
            let mut j = 0usize;
            let got = area::calc(&tree.to_impl(), *count, || {
                let v = ivals.get(j).cloned().unwrap_or_else(Num::nan);
                j += 1;
                Ok(v)
            });
            let got = match got {
                Ok(g) => g,
                Err(e) => fail!("c07:calc", "area::calc failed: {}", e),
            };
            let shown = || format!("area `{}` count {} values {:?}", shape_text(area), count, rvals.iter().map(|r| r.text()).collect::<Vec<_>>());
            ensure!(got == want, "c07:calc", "{}: selected {} want {}", shown(), got, want);
            ensure!(j == want_used, "c07:calc", "{}: consumed {} values want {}", shown(), j, want_used);
            if tree.has_q() {
                st.class("branch: has ?");
            }
            if tree.has_b() {
                st.class("branch: has !");
            }
            if rvals.iter().take(want_used).any(|r| r.is_nan()) || want_used > rvals.len() {
                st.class("branch: NaN decided");
            }
            if rvals.iter().take(want_used).any(|r| !r.is_nan() && !r.is_integer()) {
                st.class("branch: fraction decided");
            }
            st.class(if want == 0 { "branch: selects nothing" } else if want == 13 { "branch: selects ♡" } else { "branch: selects a heart" });
            if *count != 0 && want_used >= 1 {
                st.nontrivial(&(area, count, values), || json!({"area": shape_text(area), "count": count, "values": rvals.iter().map(|r| r.text()).collect::<Vec<_>>(), "selected": want}));
            }
            Ok(())
        }
    }
}

pub fn run(ctx: &Ctx, out: &mut Outcome) {
    let t = ctx.tier;
    let max = t.pick(3usize, 8usize);
    search::<Case7>(ctx, out, "pairs", t.pick(200_000, 1_500_000), &move || pair_strategy(max), &check);
    search::<Case7>(ctx, out, "pairs-one-limb", t.pick(150_000, 1_000_000), &|| pair_strategy(1), &check);
    search::<Case7>(ctx, out, "branch", t.pick(150_000, 1_000_000), &branch_strategy, &check);
}

pub fn replay(_ctx: &Ctx, v: &Value) -> Result<CheckResult, String> {
    replay_case::<Case7>(v, &check)
}

pub fn gates(out: &Outcome, tier: Tier) -> Vec<String> {
    let mut v = Vec::new();
    let m = tier.pick(1, 8);
    for (class, min) in [
        ("pair: less", 10000u64),
        ("pair: greater", 10000),
        ("pair: equal", 3000),
        ("pair: unordered (NaN)", 1000),
        ("pair: fraction vs integer", 3000),
        ("pair: negative fraction vs its truncation", 200),
        ("pair: fraction vs fraction", 5000),
        ("pair: a negative side", 10000),
        ("pair: multi-limb", 5000),
        ("branch: NaN decided", 2000),
        ("branch: fraction decided", 2000),
        ("branch: has ?", 5000),
        ("branch: has !", 5000),
    ] {
        if out.stats.get(class) < min * m {
            v.push(format!("class '{}' has {} cases, need >= {}", class, out.stats.get(class), min * m));
        }
    }
    v
}
