//! Child-process entry points of `hv` (the code under test runs in a process the parent can
//! watch and kill): `child-optimize` for C10 and `child-run` for the bounded runs of C02.

use hyeong::core::state::{State, UnOptState};
use hyeong::core::{compile, execute, optimize, parse};
use hyeong::util::ext;
use std::io::Write;

pub const EXIT_BUDGET: i32 = 90;
pub const EXIT_NORMAL: i32 = 91;
pub const EXIT_ERROR: i32 = 92;
pub const EXIT_USAGE: i32 = 93;
pub const MARKER: &str = "HV-OPTIMIZE-RETURNED";

/// parse FILE, call optimize(code, LEVEL), print one completion marker
pub fn child_optimize(file: &str, level: &str) -> ! {
    let level: u8 = level.parse().unwrap_or(255);
    let text = match std::fs::read_to_string(file) {
        Ok(t) => t,
        Err(_) => std::process::exit(EXIT_USAGE),
    };
    let code = parse::parse(text);
    let n = code.len();
    let r = optimize::optimize(code, level);
    let residual = match &r {
        Ok((_, c)) => c.len() as i64,
        Err(_) => -1,
    };
    // the marker is the only thing this process may write
    print!("{} {} {}", MARKER, n, residual);
    let _ = std::io::stdout().flush();
    // leave without running atexit handlers of the harness
    unsafe { libc::_exit(0) }
}

fn run_budget<T: State>(mut state: T, code: &T::CodeType, budget: &mut u64) -> T {
    let mut cur_loc = state.push_code((*code).clone());
    let length = cur_loc + 1;
    let mut out = std::io::stdout();
    let mut err = std::io::stderr();
    while cur_loc < length {
        if *budget == 0 {
            let _ = out.flush();
            unsafe { libc::_exit(EXIT_BUDGET) }
        }
        *budget -= 1;
        match execute::execute_one(&mut std::io::stdin(), &mut out, &mut err, state, cur_loc) {
            Ok((s, l)) => {
                state = s;
                cur_loc = l;
            }
            Err(e) => {
                let _ = out.flush();
                eprintln!("[error] {}", e);
                unsafe { libc::_exit(EXIT_ERROR) }
            }
        }
    }
    state
}

/// run FILE at LEVEL exactly as src/app/run.rs wires it, but with a step budget
pub fn child_run(file: &str, level: &str, steps: &str) -> ! {
    let level: u8 = level.parse().unwrap_or(255);
    let mut budget: u64 = steps.parse().unwrap_or(0);
    let text = match std::fs::read_to_string(file) {
        Ok(t) => t,
        Err(_) => std::process::exit(EXIT_USAGE),
    };
    let un_opt_code = parse::parse(text);
    let mut out = std::io::stdout();
    let mut err = std::io::stderr();
    if level >= 1 {
        let (mut state, opt_code) = match optimize::optimize(un_opt_code, level) {
            Ok(x) => x,
            Err(e) => {
                eprintln!("[error] {}", e);
                unsafe { libc::_exit(EXIT_ERROR) }
            }
        };
        for which in [1usize, 2usize] {
            let nums = state.get_stack(which).clone();
            for num in nums.iter() {
                match ext::num_to_unicode(num) {
                    Ok(ch) => {
                        if which == 1 {
                            let _ = write!(out, "{}", ch);
                        } else {
                            let _ = write!(err, "{}", ch);
                        }
                    }
                    Err(e) => {
                        let _ = out.flush();
                        eprintln!("[error] {}", e);
                        unsafe { libc::_exit(EXIT_ERROR) }
                    }
                }
            }
            state.get_stack(which).clear();
        }
        let _ = out.flush();
        for c in opt_code {
            state = run_budget(state, &c, &mut budget);
        }
    } else {
        let mut state = UnOptState::new();
        for c in un_opt_code {
            state = run_budget(state, &c, &mut budget);
        }
    }
    let _ = out.flush();
    unsafe { libc::_exit(EXIT_NORMAL) }
}

/// emit the Rust source for FILE at LEVEL exactly as src/app/build.rs does; prints "<commands> <residual> <pending-heart-target>"
pub fn child_emit(file: &str, level: &str, out_path: &str) -> ! {
    let level: u8 = level.parse().unwrap_or(255);
    let text = match std::fs::read_to_string(file) {
        Ok(t) => t,
        Err(_) => std::process::exit(EXIT_USAGE),
    };
    let un_opt_code = parse::parse(text);
    let n = un_opt_code.len();
    let (src, residual, pending) = if level >= 1 {
        match optimize::optimize(un_opt_code, level) {
            Ok((state, code)) => {
                let pending = state.get_latest_loc().is_some();
                let r = code.len();
                (compile::build_source(state, &code, level), r, pending)
            }
            Err(e) => {
                eprintln!("[error] {}", e);
                unsafe { libc::_exit(EXIT_ERROR) }
            }
        }
    } else {
        (compile::build_source(UnOptState::new(), &un_opt_code, level), n, false)
    };
    if std::fs::write(out_path, src).is_err() {
        unsafe { libc::_exit(EXIT_USAGE) }
    }
    print!("{} {} {}", n, residual, pending as u8);
    let _ = std::io::stdout().flush();
    unsafe { libc::_exit(0) }
}
