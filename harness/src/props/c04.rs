//! C04 — parsing is total and yields exactly the commands the grammar defines.

use crate::engine::*;
use crate::refparse::*;
use crate::{ensure, fail};
use hyeong::core::code::Code;
use hyeong::core::parse;
use proptest::prelude::*;
use serde_json::{json, Value};

pub const RULE: &str = "cases = Unicode strings: (a) free strings over a weighted alphabet (command/start/end/filler syllables, other \
Hangul incl. range neighbours and Jamo, dots, ellipses and look-alikes, the 12 hearts + U+FE0F, ? ! and full-width look-alikes, \
every kind of whitespace, other scripts, emoji, NUL), (b) shape-forcing sub-generators (area characters and dots in front of the first \
command, stray start syllables with/without a later end syllable of their class, dots after the area began, second hearts in a slot, \
newlines inside heads), (c) single commands with area chains of up to 4096 operators; each parsed by the implementation and by the \
reference parser and compared per command on kind, syllable count, dot count, area tree (prefix and infix form), line:column and raw text; \
(d) a sample of (a), (b) and junk-rendered programs written to a source file - part of them behind ASCII filler that puts a multi-byte character across a multiple of 512 B ... 1 MiB - and listed by `hyeong check`: count, index, kind, counts, area and line:column per listing line against the reference parser; non-trivial = >= 2 commands, >= 1 ignorable non-whitespace character, and a command with a multi-syllable head or a non-empty area; distinct = distinct string";

#[derive(Clone, Debug)]
pub struct Case4 {
    pub text: String,
    /// `Some((boundary, pick))`: the text goes through a source FILE and `hyeong check`; with boundary > 0 ASCII filler is put in
    /// front so that the `pick`-th multi-byte character of the text lies across that byte offset of the file
    pub file: Option<(usize, u16)>,
}

impl Case4 {
    fn of(text: String) -> Case4 {
        Case4 { text, file: None }
    }
    fn file_text(&self) -> String {
        match self.file {
            Some((b, pick)) if b > 0 => super::c08::pad_to_boundary(&self.text, b, pick).unwrap_or_else(|| self.text.clone()),
            _ => self.text.clone(),
        }
    }
}

impl Case for Case4 {
    fn to_json(&self) -> Value {
        match self.file {
            None => json!({"text": self.text, "escaped": self.text.escape_unicode().to_string()}),
            Some((b, pick)) => json!({"text": self.text, "escaped": self.text.escape_unicode().to_string(), "file": true, "boundary": b, "pick": pick,
                "note": "written to a .hyeong file (behind ASCII filler when boundary > 0) and listed by `hyeong check`"}),
        }
    }
    fn from_json(v: &Value) -> Option<Self> {
        let file = if v.get("file").and_then(|x| x.as_bool()).unwrap_or(false) {
            Some((v.get("boundary")?.as_u64()? as usize, v.get("pick")?.as_u64()? as u16))
        } else {
            None
        };
        Some(Case4 { text: v.get("text")?.as_str()?.to_string(), file })
    }
}

pub fn any_char() -> BoxedStrategy<char> {
    prop_oneof![
        10 => prop::sample::select(ONE_SYLLABLE.to_vec()),
        6 => prop::sample::select(STARTS.to_vec()),
        6 => prop::sample::select(ENDS.to_vec()),
        3 => prop::sample::select(FILLERS.to_vec()),
        2 => prop::sample::select(vec!['가', '힣', '한', '\u{AC00}', '\u{D7A3}', '일']),
        1 => prop::sample::select(vec!['\u{ABFF}', '\u{D7A4}', '\u{1112}', 'ㅎ', '\u{D7B0}']),
        8 => Just('.'),
        3 => prop::sample::select(DOTS3.to_vec()),
        1 => prop::sample::select(vec!['‥', '·', '。', '︙', ',']),
        8 => prop::sample::select(HEARTS.to_vec()),
        1 => Just('\u{FE0F}'),
        5 => Just('?'),
        5 => Just('!'),
        1 => prop::sample::select(vec!['？', '！', '¿']),
        6 => Just(' '),
        4 => Just('\n'),
        2 => prop::sample::select(vec!['\r', '\t', '\u{A0}', '\u{2028}', '\u{3000}', '\u{85}', '\u{200B}', '\u{0B}', '\u{0C}']),
        2 => prop::sample::select(vec!['a', 'Z', '0', '_', '[', ']', '#', '-']),
        1 => prop::sample::select(vec!['你', 'こ', 'д', '😀', '\u{0}', '\u{10FFFF}', 'é']),
        // code points adjacent (±1, ±2) to every significant character: tables and ranges in a parser go wrong at their edges
        2 => prop::sample::select(neighbours()),
    ]
    .boxed()
}

/// the code points next to every character the grammar gives a meaning to (and not themselves significant)
pub fn neighbours() -> Vec<char> {
    let mut sig: Vec<char> = Vec::new();
    sig.extend(ONE_SYLLABLE.iter());
    sig.extend(STARTS.iter());
    sig.extend(ENDS.iter());
    sig.extend(HEARTS.iter());
    sig.extend(DOTS3.iter());
    sig.extend(['.', '?', '!', '\n', ' '].iter());
    let mut out = Vec::new();
    for &c in &sig {
        for d in [-2i32, -1, 1, 2] {
            if let Some(n) = char::from_u32((c as i32 + d) as u32) {
                if !sig.contains(&n) && !out.contains(&n) {
                    out.push(n);
                }
            }
        }
    }
    out
}

fn chars_to_string(v: Vec<char>) -> String {
    v.into_iter().collect()
}

fn free_string(max: usize) -> BoxedStrategy<String> {
    prop::collection::vec(any_char(), 0..max).prop_map(chars_to_string).boxed()
}

/// strings built from chunks that force the shapes named in the property
fn shaped_string() -> BoxedStrategy<String> {
    let area_char = prop_oneof![3 => Just('?'), 3 => Just('!'), 6 => prop::sample::select(HEARTS.to_vec())];
    let dotc = prop_oneof![4 => Just('.'), 2 => prop::sample::select(DOTS3.to_vec())];
    let lead = prop::collection::vec(prop_oneof![3 => area_char.clone(), 2 => dotc.clone(), 1 => Just(' '), 1 => Just('\n'), 1 => prop::sample::select(ENDS.to_vec()), 1 => Just('가')], 0..8)
        .prop_map(chars_to_string);
    // a command written in a slightly noisy way
    let head = prop_oneof![
        4 => prop::sample::select(ONE_SYLLABLE.to_vec()).prop_map(|c| c.to_string()),
        4 => (0usize..3, 0usize..5, prop::collection::vec(prop_oneof![Just('\n'), Just(' '), Just('.'), Just('♥'), Just('a')], 0..3), 0usize..6).prop_map(|(class, fill, noise, endk)| {
            let ends: &[char] = match class { 0 => &['엉'], 1 => &['앙', '앗'], _ => &['읏', '읍', '윽'] };
            let mut s = String::new();
            s.push(STARTS[class]);
            for i in 0..fill {
                s.push(['어', '아', '으', '형', '하', '가', '엉', '앙', '읏'][(i * 7 + fill + class) % 9]);
                if i < noise.len() {
                    s.push(noise[i]);
                }
            }
            // fillers of the own class would end the head early: that is fine, the reference decides
            s.push(ends[endk % ends.len()]);
            s
        }),
        // stray start syllable (may or may not find a later end syllable)
        2 => prop::sample::select(STARTS.to_vec()).prop_map(|c| c.to_string()),
    ];
    let tail = prop::collection::vec(
        prop_oneof![4 => dotc.clone(), 5 => area_char.clone(), 2 => Just(' '), 1 => Just('\n'), 1 => Just('가'), 1 => prop::sample::select(STARTS.to_vec()), 1 => prop::sample::select(ENDS.to_vec()), 1 => Just('x')],
        0..10,
    )
    .prop_map(chars_to_string);
    let command = (head, tail).prop_map(|(h, t)| format!("{}{}", h, t));
    (lead, prop::collection::vec(command, 0..8)).prop_map(|(l, cs)| format!("{}{}", l, cs.join(""))).boxed()
}

/// one command with a long area chain
fn deep_area(max_ops: usize) -> BoxedStrategy<String> {
    (prop::collection::vec(prop_oneof![3 => Just('?'), 3 => Just('!'), 2 => prop::sample::select(HEARTS.to_vec()), 1 => Just(' '), 1 => Just('.')], 0..max_ops), 0usize..6, 0usize..4)
        .prop_map(|(v, k, d)| format!("{}{}{}", ONE_SYLLABLE[k], ".".repeat(d), chars_to_string(v)))
        .boxed()
}

pub fn compare(text: &str, st: Option<&mut Stats>) -> CheckResult {
    let want = ref_parse(text);
    let got = guarded("parse", || parse::parse(text.to_string()))?;
    ensure!(got.len() == want.len(), "c04:count", "{} commands parsed, the grammar defines {}", got.len(), want.len());
    for (i, (g, w)) in got.iter().zip(want.iter()).enumerate() {
        ensure!(g.get_type() == w.kind, "c04:kind", "command {}: kind {} want {}", i, g.get_type(), w.kind);
        ensure!(g.get_hangul_count() == w.h, "c04:syllables", "command {}: syllable count {} want {}", i, g.get_hangul_count(), w.h);
        ensure!(g.get_dot_count() == w.d, "c04:dots", "command {}: dot count {} want {}", i, g.get_dot_count(), w.d);
        // the tree itself (public enum), not one of its textual notations: those belong to C08
        let tree = RArea::from_impl(g.get_area());
        if tree != w.area {
            fail!("c04:area", "command {}: area {} want {}", i, tree.prefix(), w.area.prefix());
        }
        ensure!(g.get_location() == w.loc, "c04:location", "command {}: location {:?} want {:?}", i, g.get_location(), w.loc);
        ensure!(g.get_raw() == w.raw, "c04:raw", "command {}: raw text {:?} want {:?}", i, g.get_raw(), w.raw);
        ensure!(g.get_area_count() == w.h * w.d, "c04:area-count", "command {}: area count {} want {}", i, g.get_area_count(), w.h * w.d);
    }
    if let Some(st) = st {
        let chars: Vec<char> = text.chars().collect();
        let raw_total: usize = want.iter().map(|c| c.raw.chars().count()).sum();
        let nonws = chars.iter().filter(|c| !c.is_whitespace()).count();
        let ignorable = nonws > raw_total;
        let first_cmd_pos = chars.iter().position(|c| ONE_SYLLABLE.contains(c) || STARTS.contains(c));
        if let Some(p) = first_cmd_pos {
            if chars[..p].iter().any(|c| *c == '?' || *c == '!' || heart_index(*c).is_some()) && !want.is_empty() {
                st.class("area characters before the first command");
            }
            if chars[..p].iter().any(|c| dot_value(*c).is_some()) && !want.is_empty() {
                st.class("dots before the first command");
            }
        }
        if chars.iter().any(|c| DOTS3.contains(c)) {
            st.class("ellipsis characters");
        }
        if want.iter().any(|c| c.area.operators() >= 3) {
            st.class("area with >= 3 operators");
        }
        if want.iter().any(|c| c.loc.0 > 1 && c.loc.1 > 0) {
            st.class("command on a later line at column > 0");
        }
        if want.iter().any(|c| c.h >= 2) {
            st.class("multi-syllable head");
        }
        // stray start syllable: a start syllable that is not the first character of a command's raw text and not inside a head
        let starts_in_text = chars.iter().filter(|c| STARTS.contains(c)).count();
        let starts_in_raw: usize = want.iter().map(|c| c.raw.chars().filter(|x| STARTS.contains(x)).count()).sum();
        if starts_in_text > starts_in_raw {
            st.class("stray start syllable");
        }
        // dots inside area: a dot character after the first area char of some command (approximation via raw length)
        let dots_in_text = chars.iter().filter(|c| dot_value(**c).is_some()).count();
        let dots_in_raw: usize = want.iter().map(|c| c.raw.chars().filter(|x| dot_value(*x).is_some()).count()).sum();
        if dots_in_text > dots_in_raw && !want.is_empty() {
            st.class("dots that count nothing");
        }
        st.class(match want.len() {
            0 => "commands: 0",
            1 => "commands: 1",
            2..=5 => "commands: 2-5",
            _ => "commands: 6+",
        });
        if want.len() >= 2 && ignorable && want.iter().any(|c| c.h >= 2 || !c.area.is_nil()) {
            let sample_text = text.to_string();
            st.nontrivial(&text, || json!({"text": sample_text, "commands": want.iter().map(|c| format!("{}_{}_{} {} @{}:{}", ONE_SYLLABLE[c.kind as usize], c.h, c.d, c.area.prefix(), c.loc.0, c.loc.1)).collect::<Vec<_>>()}));
        }
    }
    Ok(())
}

pub fn check(c: &Case4, st: &mut Stats) -> CheckResult {
    compare(&c.text, Some(st))
}

/// the same comparison through the binary: the text is a source file, `hyeong check` lists what the parser saw
pub fn check_file(c: &Case4, st: &mut Stats, bin: &std::path::Path, scratch: &std::path::Path) -> CheckResult {
    use crate::proc;
    let text = c.file_text();
    let want = ref_parse(&text);
    let dir = proc::scratch_dir(scratch, "c04");
    let file = dir.join("p.hyeong");
    std::fs::write(&file, &text).map_err(|e| Failure::new("harness:io", e.to_string()))?;
    let o = proc::run(bin, &["--color", "never", "check", file.to_str().unwrap()], &proc::RunOpts::new(b"")).map_err(|e| Failure::new("harness:spawn", e.to_string()))?;
    let _ = std::fs::remove_dir_all(&dir);
    if o.status == proc::Status::Timeout {
        fail!("harness:timeout", "check timed out");
    }
    ensure!(o.status == proc::Status::Code(0), "c04:file-status", "`hyeong check` ended with {:?} on a UTF-8 source file, stderr {:?}", o.status, o.err_str());
    let out = o.out_str();
    let lines: Vec<&str> = out.lines().filter(|l| l.trim_start().chars().next().map(|c| c.is_ascii_digit()).unwrap_or(false)).collect();
    ensure!(lines.len() == want.len(), "c04:file-count", "`hyeong check` lists {} commands, the grammar defines {} for the file content", lines.len(), want.len());
    for (i, (line, w)) in lines.iter().zip(want.iter()).enumerate() {
        let (idx, l, col, kind, h, d, area) = match super::c08::parse_listing_line(line, "p.hyeong") {
            Some(x) => x,
            None => fail!("c04:file-listing", "listing line {:?} cannot be read back", line),
        };
        ensure!(idx == i, "c04:file-listing", "listing line {} carries index {}", i, idx);
        ensure!(
            kind == w.kind && h == w.h && d == w.d && area == w.area,
            "c04:file-listing",
            "listing line {:?} is not the command {}_{}_{} {} the grammar defines at position {}",
            line,
            ONE_SYLLABLE[w.kind as usize],
            w.h,
            w.d,
            w.area.prefix(),
            i
        );
        ensure!((l, col) == w.loc, "c04:file-location", "listing line {:?} shows {}:{} but the command is at {:?}", line, l, col, w.loc);
    }
    st.class("file listings compared");
    if text.len() > c.text.len() {
        st.class("file: multi-byte character across a block-size multiple");
    }
    if want.len() >= 2 && want.iter().any(|c| c.h >= 2 || !c.area.is_nil()) {
        let sample_text: String = c.text.chars().take(200).collect();
        st.nontrivial(&(&c.text, c.file), || json!({"file_text_tail": sample_text, "file_bytes": text.len(), "commands": want.len()}));
    }
    Ok(())
}

pub fn run(ctx: &Ctx, out: &mut Outcome) {
    let t = ctx.tier;
    let n = t.pick(60, 400);
    search::<Case4>(ctx, out, "free", t.pick(150_000, 1_500_000), &move || free_string(n).prop_map(Case4::of).boxed(), &check);
    search::<Case4>(ctx, out, "shaped", t.pick(200_000, 2_000_000), &|| shaped_string().prop_map(Case4::of).boxed(), &check);
    search::<Case4>(ctx, out, "free-short", t.pick(150_000, 1_000_000), &|| free_string(12).prop_map(Case4::of).boxed(), &check);
    search::<Case4>(ctx, out, "deep-area", t.pick(300, 3_000), &|| deep_area(4096).prop_map(Case4::of).boxed(), &check);
    // rendered programs with junk (shares the C08 renderer): grammar-valid texts
    search::<Case4>(
        ctx,
        out,
        "rendered",
        t.pick(40_000, 300_000),
        &|| super::c08::rendered_strategy(10, false).prop_map(|(_, _, text)| Case4::of(text)).boxed(),
        &check,
    );
    // the same texts as source files through `hyeong check` (second observation point of the property); a part of them behind
    // filler that puts a multi-byte character across a multiple of the block sizes a file reader may use
    let bin = ctx.hyeong_bin();
    let scratch = ctx.scratch.clone();
    search::<Case4>(
        ctx,
        out,
        "file-listing",
        t.pick(1_200, 10_000),
        &|| {
            let text = prop_oneof![2 => free_string(60), 3 => shaped_string(), 2 => super::c08::rendered_strategy(10, false).prop_map(|(_, _, text)| text)];
            let boundary = prop_oneof![
                12 => Just(0usize),
                2 => prop::sample::select(vec![512usize, 4096, 8192, 16384, 65536, 131072, 1 << 20]),
                1 => (1usize..=16).prop_map(|k| k * 8192),
            ];
            (text, boundary, any::<u16>()).prop_map(|(text, b, pick)| Case4 { text, file: Some((b, pick)) }).boxed()
        },
        &move |c, st| check_file(c, st, &bin, &scratch),
    );
}

pub fn replay(ctx: &Ctx, v: &Value) -> Result<CheckResult, String> {
    let bin = ctx.hyeong_bin();
    let scratch = ctx.scratch.clone();
    replay_case::<Case4>(v, &move |c, st| if c.file.is_some() { check_file(c, st, &bin, &scratch) } else { check(c, st) })
}

pub fn gates(out: &Outcome, tier: Tier) -> Vec<String> {
    let mut v = Vec::new();
    let m = tier.pick(1, 8);
    for (class, min) in [
        ("area characters before the first command", 3000u64),
        ("dots before the first command", 2000),
        ("stray start syllable", 5000),
        ("ellipsis characters", 5000),
        ("dots that count nothing", 5000),
        ("area with >= 3 operators", 3000),
        ("command on a later line at column > 0", 3000),
        ("multi-syllable head", 10000),
        ("commands: 6+", 3000),
        ("file listings compared", 1000),
        ("file: multi-byte character across a block-size multiple", 100),
    ] {
        if out.stats.get(class) < min * m {
            v.push(format!("class '{}' has {} cases, need >= {}", class, out.stats.get(class), min * m));
        }
    }
    v
}
