//! C12 — entering a program line by line interactively equals running it whole.

use super::c11::{calibrate, safe_output, split_transcript};
use crate::engine::*;
use crate::gen::*;
use crate::proc;
use crate::refexec::*;
use crate::refparse::{render_canonical, RCmd};
use crate::{ensure, fail};
use proptest::prelude::*;
use serde_json::{json, Value};
use std::time::Duration;

pub const RULE: &str = "cases = (input-free program of <= 16 commands incl. backward jumps, ♡ and exits, a cut of the command list into lines, interleaved `help`, \
blank lines and `clear`; after `clear` an independent program is entered; long lines with kilobytes of mixed-width output). The reference interpreter gives the output of every entered line \
(a line's output = everything written until control passes its last command, including re-execution of commands of earlier lines after a backward jump) and of \
the whole run; the transcript of `hyeong --color never` is cut at the prompts and the stdout/stderr text shown for each line must equal the model's, every character \
once; the concatenation over all lines must equal the whole-run output, which is also compared with `hyeong run -O0` of the whole program; exit status 0 or the \
requested status after the pending output. Programs the model does not finish within its budget, with unencodable output, or whose output would make the transcript \
ambiguous are excluded and counted. non-trivial = >= 2 program lines and output on >= 2 lines or a backward jump into a command of an earlier line or an exit; distinct = distinct case";

#[derive(Clone, Debug, PartialEq, Eq, Hash)]
pub enum ROp {
    /// enter the next `n` commands as one line
    Enter(usize),
    Help,
    Blank,
    Clear,
}

#[derive(Clone, Debug)]
pub struct Case12 {
    pub cmds: Vec<RCmd>,
    pub ops: Vec<ROp>,
    /// programs entered after the 1st, 2nd ... `clear` (when exhausted, the last program is entered again)
    pub later: Vec<Vec<RCmd>>,
}

impl Case for Case12 {
    fn to_json(&self) -> Value {
        let mut v = cmds_json(&self.cmds);
        v["later"] = Value::Array(self.later.iter().map(|p| cmds_json(p)).collect());
        v["ops"] = Value::Array(
            self.ops
                .iter()
                .map(|o| match o {
                    ROp::Enter(n) => json!(n),
                    ROp::Help => json!("help"),
                    ROp::Blank => json!(""),
                    ROp::Clear => json!("clear"),
                })
                .collect(),
        );
        v
    }
    fn from_json(v: &Value) -> Option<Self> {
        let cmds = v.get("cmds")?.as_array()?.iter().map(RCmd::from_json).collect::<Option<Vec<_>>>()?;
        let ops = v
            .get("ops")?
            .as_array()?
            .iter()
            .map(|x| {
                if let Some(n) = x.as_u64() {
                    Some(ROp::Enter(n as usize))
                } else {
                    match x.as_str()? {
                        "help" => Some(ROp::Help),
                        "" => Some(ROp::Blank),
                        "clear" => Some(ROp::Clear),
                        _ => None,
                    }
                }
            })
            .collect::<Option<Vec<_>>>()?;
        let later = match v.get("later").and_then(|l| l.as_array()) {
            Some(a) => a.iter().map(|p| p.get("cmds")?.as_array()?.iter().map(RCmd::from_json).collect::<Option<Vec<_>>>()).collect::<Option<Vec<_>>>()?,
            None => Vec::new(),
        };
        Some(Case12 { cmds, ops, later })
    }
}

#[derive(Clone, Debug, PartialEq)]
enum LineExp {
    Program { out: String, err: String },
    Quiet,
    Eof,
}

struct Sim {
    script: Vec<String>,
    expect: Vec<LineExp>,
    status: i32,
    whole_out: String,
    whole_err: String,
    program_lines: usize,
    lines_with_output: usize,
    cross_line_jump: bool,
    exited: bool,
    cleared: bool,
    complete_entry: bool,
}

enum SimErr {
    Exclude(&'static str),
}

fn simulate(c: &Case12, budget: usize) -> Result<Sim, SimErr> {
    let mut cur_prog: Vec<RCmd> = c.cmds.clone();
    let mut all: Vec<MCmd> = cur_prog.iter().map(MCmd::from_rcmd).collect();
    let mut later = c.later.iter();
    let mut m = Model::new(Vec::new(), "");
    m.size_cap9 = 7;
    let mut ptr = 0usize;
    let mut line_start_of_cmd: Vec<usize> = Vec::new(); // for each entered command: index of the line it was entered on
    let mut s = Sim { script: Vec::new(), expect: Vec::new(), status: 0, whole_out: String::new(), whole_err: String::new(), program_lines: 0, lines_with_output: 0, cross_line_jump: false, exited: false, cleared: false, complete_entry: false };
    let mut steps = 0usize;
    let mut ops: Vec<ROp> = c.ops.clone();
    ops.push(ROp::Enter(usize::MAX)); // whatever is left goes in as the last line
    let clears = ops.iter().filter(|o| **o == ROp::Clear).count();
    for _ in clears..c.later.len() {
        // every later program gets its turn: clear, then enter it whole
        ops.push(ROp::Clear);
        ops.push(ROp::Enter(usize::MAX));
    }
    let mut line_no = 0usize;
    for op in ops {
        match op {
            ROp::Help => {
                s.script.push("help".to_string());
                s.expect.push(LineExp::Quiet);
            }
            ROp::Blank => {
                s.script.push(String::new());
                s.expect.push(LineExp::Quiet);
            }
            ROp::Clear => {
                s.script.push("clear".to_string());
                s.expect.push(LineExp::Quiet);
                m = Model::new(Vec::new(), "");
                m.size_cap9 = 7;
                ptr = 0;
                if let Some(p) = later.next() {
                    cur_prog = p.clone();
                    all = cur_prog.iter().map(MCmd::from_rcmd).collect();
                }
                s.complete_entry = false;
                line_start_of_cmd.clear();
                s.whole_out.clear();
                s.whole_err.clear();
                s.cleared = true;
            }
            ROp::Enter(k) => {
                let k = k.min(all.len() - ptr.min(all.len()));
                if k == 0 {
                    continue;
                }
                let cmds = &cur_prog[ptr..ptr + k];
                s.script.push(render_canonical(cmds));
                s.program_lines += 1;
                line_no += 1;
                let (o0, e0) = (m.out.len(), m.err.len());
                for i in 0..k {
                    m.cmds.push(all[ptr + i].clone());
                    line_start_of_cmd.push(line_no);
                    let newest = m.cmds.len() - 1;
                    let mut loc = newest;
                    while loc <= newest {
                        steps += 1;
                        if steps > budget {
                            return Err(SimErr::Exclude("the model does not finish the program within its budget"));
                        }
                        if line_start_of_cmd[loc] < line_no {
                            s.cross_line_jump = true;
                        }
                        match m.step(loc) {
                            Ok(next) => loc = next,
                            Err(Stop::Exit(code)) => {
                                let (out, err) = (m.out[o0..].to_string(), m.err[e0..].to_string());
                                s.whole_out.push_str(&out);
                                s.whole_err.push_str(&err);
                                s.expect.push(LineExp::Program { out, err });
                                s.status = code;
                                s.exited = true;
                                return Ok(s);
                            }
                            Err(Stop::Encoding(_)) => return Err(SimErr::Exclude("output-encoding error (not part of the C12 claim)")),
                            Err(_) => return Err(SimErr::Exclude("value outside the harness bounds")),
                        }
                    }
                }
                ptr += k;
                let (out, err) = (m.out[o0..].to_string(), m.err[e0..].to_string());
                if !out.is_empty() || !err.is_empty() {
                    s.lines_with_output += 1;
                }
                s.whole_out.push_str(&out);
                s.whole_err.push_str(&err);
                s.expect.push(LineExp::Program { out, err });
                if ptr == all.len() {
                    s.complete_entry = true;
                }
            }
        }
    }
    s.expect.push(LineExp::Eof);
    Ok(s)
}

pub fn check(c: &Case12, st: &mut Stats, bin: &std::path::Path, scratch: &std::path::Path, budget: usize, also_run: bool) -> CheckResult {
    if c.cmds.is_empty() {
        st.exclude("empty program");
        return Ok(());
    }
    let sim = match simulate(c, budget) {
        Ok(s) => s,
        Err(SimErr::Exclude(why)) => {
            st.exclude(why);
            return Ok(());
        }
    };
    let all_safe = sim.expect.iter().all(|e| match e {
        LineExp::Program { out, err } => safe_output(out) && safe_output(err),
        _ => true,
    });
    if !all_safe {
        st.exclude("program output contains a character that makes the transcript ambiguous (line break, '>' or '[')");
        return Ok(());
    }
    let mut script = sim.script.join("\n");
    script.push('\n');
    let mut o = proc::RunOpts::new(script.as_bytes());
    o.cpu_secs = Some(20);
    o.wall = Duration::from_secs(120);
    let r = match proc::run(bin, &["--color", "never"], &o) {
        Ok(r) => r,
        Err(e) => {
            st.trouble(format!("cannot spawn hyeong: {}", e));
            return Ok(());
        }
    };
    let shown = || sim.script.iter().map(|l| format!("`{}`", l)).collect::<Vec<_>>().join(" ⏎ ");
    match r.status {
        proc::Status::Timeout => {
            st.trouble("wall-clock watchdog fired on the interactive interpreter");
            return Ok(());
        }
        proc::Status::Signal(sig) => fail!("c12:crash", "the interactive interpreter was killed by signal {} on {}", sig, shown()),
        proc::Status::Code(code) => {
            let err = r.err_str();
            ensure!(code != 101 && !err.contains("panicked at"), "c12:crash", "the interactive interpreter panicked (status {}) on {}: {:?}", code, shown(), err.chars().take(300).collect::<String>());
            ensure!(code == sim.status, "c12:status", "the interactive interpreter ended with status {} want {} on {}; stderr {:?}", code, sim.status, shown(), err);
        }
    }
    let transcript = r.out_str();
    let cal = calibrate(bin, scratch, true);
    let (_, chunks) = split_transcript(&transcript, &cal.prompt);
    ensure!(chunks.len() == sim.expect.len(), "c12:prompts", "the interpreter prompted {} times, the model expects {} on {}; transcript {:?}", chunks.len(), sim.expect.len(), shown(), transcript);
    for (i, (got, want)) in chunks.iter().zip(sim.expect.iter()).enumerate() {
        let at = || format!("line #{} `{}` of {}", i, sim.script.get(i).cloned().unwrap_or_default(), shown());
        let (mut out, mut err) = (String::new(), String::new());
        let mut other = false;
        for l in got.lines() {
            if l.starts_with(cal.log_prefix.as_str()) {
                continue; // informational log line of the tool
            }
            if let Some(x) = l.strip_prefix(cal.out_tag.as_str()) {
                out.push_str(x);
            } else if let Some(x) = l.strip_prefix(cal.err_tag.as_str()) {
                err.push_str(x);
            } else if !l.is_empty() {
                other = true;
            }
        }
        match want {
            LineExp::Eof => ensure!(got.is_empty(), "c12:eof", "{}: text after the last prompt {:?}", at(), got),
            LineExp::Quiet => ensure!(out.is_empty() && err.is_empty(), "c12:output", "{}: program output shown where none is due: {:?}", at(), got),
            LineExp::Program { out: wo, err: we } => {
                ensure!(!other, "c12:output", "{}: unexpected text {:?}", at(), got);
                ensure!(out == *wo, "c12:output", "{}: stdout shown {:?} want {:?}", at(), out, wo);
                ensure!(err == *we, "c12:output", "{}: stderr shown {:?} want {:?}", at(), err, we);
            }
        }
    }
    // the whole program run at once (only meaningful when the last entry of the program was complete or ended by exit)
    if also_run && (sim.complete_entry || sim.exited) && !sim.cleared && c.later.is_empty() {
        let text = render_canonical(&c.cmds);
        if let Ok(w) = proc::run_hyeong(bin, scratch, &text, 0, b"", |o| {
            o.cpu_secs = Some(20);
            o.wall = Duration::from_secs(120);
        }) {
            if let proc::Status::Code(code) = w.raw.status {
                ensure!(code == sim.status, "c12:whole-status", "`hyeong run -O0` ends with status {}, the interactive entry with {} on {}", code, sim.status, shown());
                ensure!(w.out == sim.whole_out.as_bytes(), "c12:whole-stdout", "`hyeong run -O0` wrote {:?}, the lines together {:?} on {}", String::from_utf8_lossy(&w.out), sim.whole_out, shown());
                ensure!(w.raw.stderr == sim.whole_err.as_bytes(), "c12:whole-stderr", "`hyeong run -O0` stderr {:?}, the lines together {:?} on {}", w.raw.err_str(), sim.whole_err, shown());
                st.class("compared with the whole run on the binary");
            }
        }
    }
    for (name, on) in [
        ("backward jump into a command of an earlier line", sim.cross_line_jump),
        ("program exits", sim.exited),
        ("clear used", sim.cleared),
        ("output on >= 2 lines", sim.lines_with_output >= 2),
        (">= 3 program lines", sim.program_lines >= 3),
        ("entered line longer than 8 KiB", sim.script.iter().any(|l| l.len() > 8192)),
        ("entered line longer than 64 KiB", sim.script.iter().any(|l| l.len() > 65536)),
        ("more than 4 KiB of output on one line", sim.expect.iter().any(|e| matches!(e, LineExp::Program { out, err } if out.len() + err.len() > 4096))),
    ] {
        if on {
            st.class(name);
        }
    }
    if sim.program_lines >= 2 && (sim.lines_with_output >= 2 || sim.cross_line_jump || sim.exited) {
        st.nontrivial(&(&c.cmds, &c.ops, &c.later), || json!({"script": sim.script, "status": sim.status}));
    }
    Ok(())
}

fn strategy() -> BoxedStrategy<Case12> {
    let prog = prop_oneof![
        4 => program_with_jumps(&Profile::input_free(12)),
        4 => (program_with_jumps(&Profile::input_free(8)), prop::collection::vec((1usize..=2, prop::sample::select(vec![(5usize, 13usize), (6, 11), (7, 7), (3, 11), (8, 9)]), any::<u16>()), 1..5)).prop_map(|(mut p, prints)| {
            for (target, (h, d), at) in prints {
                let pos = pick_idx(at, p.len() + 1);
                p.insert(pos, RCmd::new(1, 1, target));
                p.insert(pos, RCmd::new(0, h, d));
            }
            p
        }),
        1 => (program_with_jumps(&Profile::input_free(6)), 1usize..=2).prop_map(|(mut p, w)| {
            p.extend(idiom_exit(w));
            p
        }),
    ];
    let op = prop_oneof![12 => (1usize..=4).prop_map(ROp::Enter), 1 => Just(ROp::Help), 1 => Just(ROp::Blank), 1 => Just(ROp::Clear)];
    // variant: a ♡ evaluated early (falls through while no jump has happened yet), jumps later, and a `clear` in the middle of the session:
    // after `clear` the second entry must behave like the first one
    (prog, prop::collection::vec(op, 0..14), 0u8..4, any::<u16>(), any::<u16>(), prop::sample::select(vec!["♡", "♡?", "?♡", "♡!♥"]), 0usize..4)
        .prop_flat_map(|(cmds, ops, variant, a, b, area, d)| {
            // programs entered after `clear`: none (the same program again), or a different one that evaluates a ♡ before any jump of its own
            let later = if variant == 0 {
                prop::collection::vec(program_with_jumps(&Profile::input_free(8)), 1..=2)
                    .prop_map(move |mut ps| {
                        for p in ps.iter_mut() {
                            let pos = pick_idx(a, p.len() + 1);
                            p.insert(pos, RCmd::new(1, 1, 1));
                            p.insert(pos, RCmd::with_area(0, 5, 13, crate::refparse::parse_shape(area).unwrap()));
                            let _ = (b, d);
                        }
                        ps
                    })
                    .boxed()
            } else if variant == 1 {
                prop::collection::vec(program_with_jumps(&Profile::input_free(8)), 1..=1).boxed()
            } else {
                Just(Vec::new()).boxed()
            };
            (Just(cmds), Just(ops), later)
        })
        .prop_map(|(cmds, ops, later)| Case12 { cmds, ops, later })
        .boxed()
}

/// long entered lines (far beyond 8 KiB / 64 KiB of source text on one line) and lines that produce more than 4 KiB of output
fn long_strategy() -> BoxedStrategy<Case12> {
    (prop::sample::select(vec![200usize, 400, 1500, 3000]), prop::sample::select(vec![0usize, 4222, 8318]), prop::collection::vec(any::<u16>(), 0..3), 1usize..=2, any::<bool>(), any::<bool>())
        .prop_map(|(n, loop_n, cuts, target, with_exit, wide)| {
            let mut cmds = Vec::new();
            for i in 0..n {
                // `wide`: characters of 3, 2 and 1 bytes in turn, so that some character lies across any fixed byte offset
                match (wide, i % 3) {
                    (true, 0) => cmds.push(RCmd::new(0, 64, 688)), // U+AC00
                    (true, 1) => cmds.push(RCmd::new(0, 1, 233)),  // U+00E9
                    _ => cmds.push(RCmd::new(0, 5 + i % 2, 13)),
                }
                cmds.push(RCmd::new(1, 1, target));
            }
            if loop_n > 0 {
                if wide {
                    cmds.extend(idiom_loop_clean_chars(loop_n, &[0xAC00, 0xE9], '💖'));
                } else {
                    cmds.extend(idiom_loop_clean(loop_n, true, '💖'));
                }
            }
            if with_exit {
                cmds.extend(idiom_exit(1));
            }
            // cut into at most 4 lines
            let mut points: Vec<usize> = cuts.iter().map(|c| pick_idx(*c, cmds.len().max(1))).collect();
            points.sort_unstable();
            points.dedup();
            let mut ops = Vec::new();
            let mut prev = 0;
            for p in points {
                if p > prev {
                    ops.push(ROp::Enter(p - prev));
                    prev = p;
                }
            }
            Case12 { cmds, ops, later: Vec::new() }
        })
        .boxed()
}

pub fn run(ctx: &Ctx, out: &mut Outcome) {
    let t = ctx.tier;
    let bin = ctx.hyeong_bin();
    let scratch = ctx.scratch.clone();
    let budget = t.pick(2000, 20000);
    {
        let (bin, scratch) = (bin.clone(), scratch.clone());
        search::<Case12>(ctx, out, "long-lines", t.pick(48, 400), &long_strategy, &move |c, st| check(c, st, &bin, &scratch, 200_000, true));
    }
    search::<Case12>(ctx, out, "repl-sessions", t.pick(20_000, 200_000), &strategy, &move |c, st| check(c, st, &bin, &scratch, budget, true));
}

pub fn replay(ctx: &Ctx, v: &Value) -> Result<CheckResult, String> {
    let bin = ctx.hyeong_bin();
    let scratch = ctx.scratch.clone();
    replay_case::<Case12>(v, &move |c, st| check(c, st, &bin, &scratch, 20000, true))
}

pub fn gates(out: &Outcome, tier: Tier) -> Vec<String> {
    let mut v = Vec::new();
    let m = tier.pick(1, 8);
    for (class, min) in [
        ("backward jump into a command of an earlier line", 100u64),
        ("program exits", 300),
        ("clear used", 500),
        ("output on >= 2 lines", 500),
        (">= 3 program lines", 2000),
        ("compared with the whole run on the binary", 1500),
        ("entered line longer than 8 KiB", 15),
        ("entered line longer than 64 KiB", 5),
        ("more than 4 KiB of output on one line", 8),
    ] {
        if out.stats.get(class) < min * m {
            v.push(format!("class '{}' has {} cases, need >= {}", class, out.stats.get(class), min * m));
        }
    }
    v
}
