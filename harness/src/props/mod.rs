use crate::engine::*;
use serde_json::Value;

pub mod c01;
pub mod c02;
pub mod c03;
pub mod child;
pub mod c04;
pub mod c05;
pub mod c06;
pub mod c07;
pub mod c08;
pub mod c09;
pub mod c10;
pub mod c11;
pub mod c12;
pub mod c13;
pub mod c14;

pub struct PropInfo {
    pub run: fn(&Ctx, &mut Outcome),
    pub replay: fn(&Ctx, &Value) -> Result<CheckResult, String>,
    pub gates: fn(&Outcome, Tier) -> Vec<String>,
    pub rule: &'static str,
    pub assumptions: &'static [&'static str],
}

const NUM_ASSUMPTIONS: &[&str] = &[
    "the reference arithmetic (harness/src/refnum.rs: base-10^9 schoolbook integers, reduced rationals) is correct; it is cross-checked against native i128 on every run and against python3 integers/fractions in the thorough tier and in `hv selftest`",
    "inputs are constructed with BigNum::from_vec + minus only, so no arithmetic of the implementation takes part in building operands",
    "no claim for inputs that were not generated (bounded limb counts, see coverage.stages)",
];

const PARSE_ASSUMPTIONS: &[&str] = &[
    "the reference parser (harness/src/refparse.rs, two-phase, written from the grammar) is correct; it is self-tested on the repository's documented examples on every run",
    "the noisy renderer only puts junk where the grammar ignores it; every rendered text is additionally cross-checked by the reference parser (a disagreement there is reported as a harness defect, signature harness:render)",
    "no claim for inputs that were not generated (string lengths and area depths as listed in coverage.stages / rule)",
];

const EXEC_ASSUMPTIONS: &[&str] = &[
    "the reference interpreter (harness/src/refexec.rs, small-step over reference rationals, written from the language description) is correct; it is self-tested on every run against the repository's golden programs and examples (documented outputs)",
    "programs are rendered canonically and parsed by the implementation's parser; the model executes the commands the implementation parsed",
    "behaviour declared unspecified is excluded: a case is cut at the step that would write a value >= 2^32 to stack 1/2; counts stay below 2^31 by construction",
    "bulk cases are cut when a value exceeds ~2^190 (size cap, counted in the classes); unbounded values are served by the separate big-values stage",
    "no claim for inputs that were not generated",
];

const DIFF_ASSUMPTIONS: &[&str] = &[
    "the unoptimised interpreter (`hyeong run -O0`) is the yardstick; it is tied to the language definition by C01; cases on which level 0 itself disagrees with the reference model are excluded here and counted (C01 reports them)",
    "the reference model only classifies (terminates / exits / encoding error / does not terminate within the budget)",
    "non-terminating programs: only prefix-compatibility of the outputs under a step budget is decided",
    "a wall-clock watchdog expiry is reported as inconclusive (exit 2), never as a violation; CPU-limit expiry of an optimised run whose unoptimised twin finished is reported as a violation",
    "no claim for inputs that were not generated",
];

const C10_ASSUMPTIONS: &[&str] = &[
    "a read through the child's standard input moves the file offset shared with the parent (same open file description via dup): any consumption of input is visible as offset != 0",
    "the child (`hv child-optimize`) does nothing but parse, call optimize::optimize and print one marker line; it is built from the current /repo tree",
    "`always finishes` is decided as: CPU time <= 20 s for programs of <= 60 commands whose values stay below ~2^750 in the reference model (expected cost: milliseconds); the complexity bound itself is not decidable by testing",
    "programs whose values explode within the speculation horizon are excluded and counted (slow arithmetic is not a violation)",
    "wall-clock watchdog expiry is inconclusive (exit 2), CPU-limit expiry is a violation",
];

const C03_ASSUMPTIONS: &[&str] = &[
    "the unoptimised interpreter (`hyeong run -O0`) is the yardstick (tied to the definition by C01); cases where it disagrees with the reference model are excluded and counted",
    "emitted programs are compiled with the installed rustc against a number-only rlib built from the current /repo tree (`--cfg feature=\"number\"`), which is what the project's own build path links against",
    "the source is obtained from compile::build_source exactly as src/app/build.rs calls it, in a child process",
    "only programs the reference model finishes within its step budget are compiled and run; bounded by rustc throughput (hundreds of programs in quick, tens of thousands in thorough)",
];

const C14_ASSUMPTIONS: &[&str] = &[
    "the closed-form function of each family program (copy / duplicate / cat) is right; it is cross-checked against the reference interpreter on every short input (a disagreement is reported as harness trouble, exit 2)",
    "the family programs are compiled once per level at the start of the check with the installed rustc against the number-only build of the current tree",
    "no claim for texts that were not generated (line lengths up to ~200 KB)",
];

const C13_ASSUMPTIONS: &[&str] = &[
    "the byte-level model of the failure paths: extension must be exactly `hyeong`; the file must be UTF-8; an input line that is not UTF-8 is an error only when the program actually reads it (line-wise reading); non-scalar output values are diagnosed; values >= 2^32 only need a defined end",
    "the run itself is predicted by the reference interpreter over the reference parse of the file text; runs the model does not finish within its budget are skipped and counted",
    "wording of diagnostics is not compared; `diagnostic present` = stderr longer than what the program itself wrote there",
];

const C11_ASSUMPTIONS: &[&str] = &[
    "the debugger model: position k on the program's trajectory (k grows by one per executed command, `previous` decrements it if k > 0), breakpoint set initially {0}, `b N` toggles for N < number of commands and has no effect otherwise, `run` executes one command and then goes on until the next command carries a breakpoint or the program ends",
    "the displayed states come from the library interpreter (its Debug rendering after k steps), run in lock-step with the reference interpreter (C01); cases where the two disagree are excluded and left to C01",
    "transcripts are compared by projection: state dumps exactly, listed command index, program output text, listed breakpoint indices; prompts' wording, log and error messages are not compared",
    "programs whose output contains a line break, '>' or '[' are excluded (ambiguous transcript), as are programs with unencodable output; a `run` the model cannot finish is cut from the history",
];

const C12_ASSUMPTIONS: &[&str] = &[
    "a line's output = everything the reference interpreter writes from entering the line until control passes the line's last command, with stacks, labels and last jump source carried over; `clear` resets everything",
    "transcripts are compared by projection (stdout / stderr text per prompt); wording of the banner and help is not compared",
    "programs the model does not finish within its budget, with unencodable output, or whose output contains a line break, '>' or '[' are excluded and counted",
];

pub fn info(id: &str) -> Option<PropInfo> {
    Some(match id {
        "C01" => PropInfo { run: c01::run, replay: c01::replay, gates: c01::gates, rule: c01::RULE, assumptions: EXEC_ASSUMPTIONS },
        "C02" => PropInfo { run: c02::run, replay: c02::replay, gates: c02::gates, rule: c02::RULE, assumptions: DIFF_ASSUMPTIONS },
        "C10" => PropInfo { run: c10::run, replay: c10::replay, gates: c10::gates, rule: c10::RULE, assumptions: C10_ASSUMPTIONS },
        "C03" => PropInfo { run: c03::run, replay: c03::replay, gates: c03::gates, rule: c03::RULE, assumptions: C03_ASSUMPTIONS },
        "C14" => PropInfo { run: c14::run, replay: c14::replay, gates: c14::gates, rule: c14::RULE, assumptions: C14_ASSUMPTIONS },
        "C13" => PropInfo { run: c13::run, replay: c13::replay, gates: c13::gates, rule: c13::RULE, assumptions: C13_ASSUMPTIONS },
        "C11" => PropInfo { run: c11::run, replay: c11::replay, gates: c11::gates, rule: c11::RULE, assumptions: C11_ASSUMPTIONS },
        "C12" => PropInfo { run: c12::run, replay: c12::replay, gates: c12::gates, rule: c12::RULE, assumptions: C12_ASSUMPTIONS },
        "C04" => PropInfo { run: c04::run, replay: c04::replay, gates: c04::gates, rule: c04::RULE, assumptions: PARSE_ASSUMPTIONS },
        "C08" => PropInfo { run: c08::run, replay: c08::replay, gates: c08::gates, rule: c08::RULE, assumptions: PARSE_ASSUMPTIONS },
        "C05" => PropInfo { run: c05::run, replay: c05::replay, gates: c05::gates, rule: c05::RULE, assumptions: NUM_ASSUMPTIONS },
        "C06" => PropInfo { run: c06::run, replay: c06::replay, gates: c06::gates, rule: c06::RULE, assumptions: NUM_ASSUMPTIONS },
        "C07" => PropInfo { run: c07::run, replay: c07::replay, gates: c07::gates, rule: c07::RULE, assumptions: NUM_ASSUMPTIONS },
        "C09" => PropInfo { run: c09::run, replay: c09::replay, gates: c09::gates, rule: c09::RULE, assumptions: NUM_ASSUMPTIONS },
        _ => return None,
    })
}

pub fn replay(ctx: &Ctx, v: &Value) -> Result<CheckResult, String> {
    let i = info(&ctx.id).ok_or_else(|| format!("unknown property {}", ctx.id))?;
    (i.replay)(ctx, v)
}

/// per-property preparation (building helper artefacts); nothing for the number properties
pub fn prepare(ctx: &Ctx) -> Result<(), String> {
    match ctx.id.as_str() {
        "C14" => c14::prepare(ctx),
        _ => Ok(()),
    }
}

/// trusted-base self-tests; `full` adds the python cross-check
pub fn selftest(ctx: &Ctx, full: bool) -> Result<usize, String> {
    let mut n = crate::refnum::selftest_i128(ctx.seed ^ 0x9E3779B97F4A7C15)?;
    n += crate::refparse::selftest()?;
    n += crate::refexec::selftest()?;
    if full {
        // python3 integers / fractions as the independent root of trust for the reference arithmetic
        let recs = crate::pyoracle::reference_records(ctx.seed ^ 0x5DEECE66D, 3000);
        let lines = recs.lines().count();
        crate::pyoracle::run_python(&ctx.verif, &ctx.scratch, &recs, "refnum").map_err(|e| format!("python cross-check of the reference arithmetic failed:\n{}", e))?;
        n += lines;
    }
    Ok(n)
}

