//! C05 — big integers compute exactly like mathematical integers.

use crate::engine::*;
use crate::numgen::*;
use crate::refnum::RefInt;
use crate::{ensure, fail};
use hyeong::number::big_number::BigNum;
use proptest::prelude::*;
use serde_json::{json, Value};
use std::cmp::Ordering;

pub const RULE: &str = "cases = ordered operand pairs (sign + 32-bit limb vectors, limbs weighted to 0/1/2^31/2^32-2/2^32-1, \
shapes: independent, equal length, equal, negated, a±delta, shared top limbs, exact/near multiples, small divisor, zero) checked \
for + - * / % neg == != < <= > >= cmp gcd, the assign variants, the named functions (BigNum::add ...) and set_copy/set_move against the base-10^9 reference, plus machine integers for BigNum::new; \
non-trivial = neither operand is 0 or ±1 and (both operands have >= 2 significant limbs or a boundary limb is present), \
or a constructor argument with |n| >= 2^31; distinct = distinct (a, b) / n";

#[derive(Clone, Debug)]
pub enum Case5 {
    Pair { a: Big, b: Big },
    New(i64),
    /// a batch of implementation results re-computed by python3 (second, independent oracle)
    PyRecords { seed: u64, n: usize },
    /// (a, b) then the nudged pair: results must not depend on the call before
    Sequence { a: Big, b: Big, deltas: Vec<i64>, on_b: bool },
}

impl Case for Case5 {
    fn to_json(&self) -> Value {
        match self {
            Case5::Pair { a, b } => json!({"kind":"pair","a":a.to_json(),"b":b.to_json()}),
            Case5::New(n) => json!({"kind":"new","n":n}),
            Case5::PyRecords { seed, n } => json!({"kind":"pyrecords","seed":seed,"n":n}),
            Case5::Sequence { a, b, deltas, on_b } => json!({"kind":"sequence","a":a.to_json(),"b":b.to_json(),"deltas":deltas,"on_b":on_b}),
        }
    }
    fn from_json(v: &Value) -> Option<Self> {
        match v.get("kind")?.as_str()? {
            "pair" => Some(Case5::Pair { a: Big::from_json(v.get("a")?)?, b: Big::from_json(v.get("b")?)? }),
            "new" => Some(Case5::New(v.get("n")?.as_i64()?)),
            "pyrecords" => Some(Case5::PyRecords { seed: v.get("seed")?.as_u64()?, n: v.get("n")?.as_u64()? as usize }),
            "sequence" => Some(Case5::Sequence {
                a: Big::from_json(v.get("a")?)?,
                b: Big::from_json(v.get("b")?)?,
                deltas: v.get("deltas")?.as_array()?.iter().map(|x| x.as_i64()).collect::<Option<Vec<_>>>()?,
                on_b: v.get("on_b")?.as_bool()?,
            }),
            _ => None,
        }
    }
}

fn pair_strategy(max: usize) -> BoxedStrategy<Case5> {
    let indep = (big(max), big(max)).prop_map(|(a, b)| (a, b));
    let eq_len = (1..=max).prop_flat_map(|n| {
        (any::<bool>(), prop::collection::vec(limb(), n), any::<bool>(), prop::collection::vec(limb(), n))
            .prop_map(|(na, la, nb, lb)| (Big { neg: na, limbs: la }, Big { neg: nb, limbs: lb }))
    });
    let equal = (big(max), any::<bool>()).prop_map(|(a, flip)| {
        let mut b = a.clone();
        if flip {
            b.neg = !b.neg;
        }
        (a, b)
    });
    let delta = prop_oneof![
        Just(1i128),
        Just(-1i128),
        Just(2i128),
        Just(1i128 << 32),
        Just(-(1i128 << 32)),
        Just((1i128 << 32) - 1),
        Just(1i128 << 31),
        (-1000i128..1000),
        any::<i64>().prop_map(|x| x as i128),
    ];
    let near = (big(max), delta, any::<bool>(), any::<bool>()).prop_map(|(a, d, swap, negb)| {
        let mut b = Big::from_ref(&a.to_ref().add(&RefInt::from_i128(d)));
        if negb {
            b.neg = !b.neg;
        }
        if swap {
            (b, a)
        } else {
            (a, b)
        }
    });
    // same upper limbs, different lower limbs (comparison must look below the top limb)
    let shared_top = (limbs(max.max(2) - 1), limbs(2), limbs(2), any::<bool>(), any::<bool>()).prop_map(|(hi, lo1, lo2, na, nb)| {
        let mut la = lo1;
        la.extend(hi.iter().cloned());
        let mut lb = lo2;
        lb.extend(hi.iter().cloned());
        (Big { neg: na, limbs: la }, Big { neg: nb, limbs: lb })
    });
    // a = b*k + r with |r| < |b|  (exact and near multiples)
    let half = (max / 2).max(1);
    let multiple = (big_nonzero(half), big(half), prop_oneof![Just(0u8), Just(1u8), Just(2u8), Just(3u8)], big(half)).prop_map(|(b, k, rk, rr)| {
        let rb = b.to_ref();
        let mut a = rb.mul(&k.to_ref());
        let r = match rk {
            0 => RefInt::zero(),
            1 => RefInt::one(),
            2 => rb.abs().sub(&RefInt::one()),
            _ => rr.to_ref().abs().divrem_trunc(&rb).1,
        };
        a = if a.is_neg() { a.sub(&r) } else { a.add(&r) };
        (Big::from_ref(&a), b)
    });
    let small_div = (
        big(max),
        prop_oneof![Just(1u32), Just(2u32), Just(10u32), Just(36u32), Just(0x8000_0000u32), Just(0xFFFF_FFFFu32), 2u32..100, any::<u32>()],
        any::<bool>(),
        any::<bool>(),
    )
        .prop_map(|(a, d, neg, swap)| {
            let b = Big { neg, limbs: vec![d.max(1)] };
            if swap {
                (b, a)
            } else {
                (a, b)
            }
        });
    let with_zero = (big(max), any::<bool>()).prop_map(|(a, swap)| {
        let z = Big { neg: false, limbs: vec![0] };
        if swap {
            (z, a)
        } else {
            (a, z)
        }
    });
    prop_oneof![
        6 => indep.boxed(),
        3 => eq_len.boxed(),
        2 => equal.boxed(),
        4 => near.boxed(),
        3 => shared_top.boxed(),
        4 => multiple.boxed(),
        3 => small_div.boxed(),
        1 => with_zero.boxed(),
    ]
    .prop_map(|(a, b)| Case5::Pair { a, b })
    .boxed()
}

/// limb vectors made of *runs* of boundary limbs (long carry / borrow chains, all-ones blocks, interior zero blocks)
fn runs_limbs(max_runs: usize) -> impl Strategy<Value = Vec<u32>> {
    let v = prop_oneof![
        4 => Just(0xFFFF_FFFFu32),
        3 => Just(0u32),
        1 => Just(1u32),
        1 => Just(0x8000_0000u32),
        1 => Just(0x7FFF_FFFFu32),
        1 => Just(0xFFFF_FFFEu32),
        1 => any::<u32>(),
    ];
    prop::collection::vec((v, 1usize..=8), 1..=max_runs).prop_map(|runs| {
        let mut l = Vec::new();
        for (x, n) in runs {
            for _ in 0..n {
                l.push(x);
            }
        }
        l.truncate(14);
        l
    })
}

fn runs_strategy() -> BoxedStrategy<Case5> {
    (runs_limbs(4), runs_limbs(4), any::<bool>(), any::<bool>(), 0u8..4)
        .prop_map(|(la, lb, na, nb, rel)| {
            let a = Big { neg: na, limbs: la };
            let mut b = Big { neg: nb, limbs: lb };
            // related operands: b = complement-like / a ± 1 (carry or borrow ripples through the whole run)
            if rel == 0 {
                b = Big::from_ref(&a.to_ref().abs().add(&RefInt::one()));
                b.neg = nb;
            } else if rel == 1 {
                let one = Big { neg: false, limbs: vec![1] };
                return Case5::Pair { a, b: one };
            }
            Case5::Pair { a, b }
        })
        .boxed()
}

/// two operations in a row on nearly identical operands (each of the lowest limbs moved by a small amount):
/// results must not depend on what was computed just before (caches, memo tables, reused buffers)
fn near_sequence_strategy(max: usize) -> BoxedStrategy<Case5> {
    (big_nonzero(max), big_nonzero(max), prop::collection::vec(-40i64..=40, 1..=3), any::<bool>())
        .prop_map(|(a, b, deltas, on_b)| Case5::Sequence { a, b, deltas, on_b })
        .boxed()
}

fn nudge(x: &Big, deltas: &[i64]) -> Big {
    let mut l = x.limbs.clone();
    for (i, d) in deltas.iter().enumerate() {
        if i < l.len() {
            l[i] = (l[i] as i64).wrapping_add(*d) as u32;
        }
    }
    let n = l.len();
    if l[n - 1] == 0 {
        l[n - 1] = 1;
    }
    Big { neg: x.neg, limbs: l }
}

fn new_strategy() -> BoxedStrategy<Case5> {
    let specials: Vec<i64> = vec![
        0,
        1,
        -1,
        (1 << 31) - 1,
        1 << 31,
        -(1 << 31),
        (1 << 32) - 1,
        1 << 32,
        (1 << 32) + 1,
        -(1 << 32),
        -((1 << 32) + 1),
        -((1 << 32) - 1),
        i64::MAX,
        i64::MIN,
        i64::MIN + 1,
        (1 << 33) + 7,
        1 << 63 - 1,
        0x1_0000_0001,
        0xFFFF_FFFF_0000_0000u64 as i64,
        0x7FFF_FFFF_0000_0000,
        0x7FFF_FFFF_FFFF_FFFE,
    ];
    prop_oneof![
        2 => prop::sample::select(specials),
        3 => any::<i64>(),
        2 => (0u32..64, any::<u64>(), any::<bool>()).prop_map(|(bits, v, neg)| {
            let m = if bits == 0 { 0 } else { v >> (64 - bits) } as i64;
            if neg { m.wrapping_neg() } else { m }
        }),
    ]
    .prop_map(Case5::New)
    .boxed()
}

fn show(b: &BigNum) -> String {
    guarded("display", || format!("{}", b)).unwrap_or_else(|_| "<display panicked>".to_string())
}

/// got must be exactly the (normalised) value `want`
fn expect(got: &BigNum, want: &RefInt, sig: &str, ctxt: &dyn Fn() -> String, display_limit: usize) -> CheckResult {
    let w = impl_from_ref(want);
    let same = *got == w && w == *got;
    if !same {
        fail!(sig, "{}: got {} want {}", ctxt(), show(got), want.to_dec());
    }
    ensure!(got.is_pos() == !want.is_neg(), sig, "{}: is_pos()={} for value {}", ctxt(), got.is_pos(), want.to_dec());
    ensure!(got.is_zero() == want.is_zero(), sig, "{}: is_zero()={} for value {}", ctxt(), got.is_zero(), want.to_dec());
    let (_, limbs) = want.to_limbs();
    if limbs.len() == 1 {
        // to_int is documented only for values below 2^32
        ensure!(got.to_int() == limbs[0], sig, "{}: to_int()={} want {}", ctxt(), got.to_int(), limbs[0]);
    }
    if limbs.len() <= display_limit {
        let s = format!("{}", got);
        ensure!(s == want.to_dec(), sig, "{}: prints {} want {}", ctxt(), s, want.to_dec());
    }
    Ok(())
}

pub fn check(c: &Case5, st: &mut Stats, tier: Tier) -> CheckResult {
    let display_limit = 16usize;
    match c {
        Case5::PyRecords { .. } => Ok(()),
        Case5::Sequence { a, b, deltas, on_b } => {
            let (a2, b2) = if *on_b { (a.clone(), nudge(b, deltas)) } else { (nudge(a, deltas), b.clone()) };
            // interleaved single operations first, compared structurally only (rendering a value divides, and a stale
            // cache can make that loop forever): nothing else is called in between
            let (ia, ib, ia2, ib2) = (a.to_impl(), b.to_impl(), a2.to_impl(), b2.to_impl());
            let (ra, rb, ra2, rb2) = (a.to_ref(), b.to_ref(), a2.to_ref(), b2.to_ref());
            let same = |got: &BigNum, want: &RefInt| -> bool {
                let w = impl_from_ref(want);
                *got == w && w == *got
            };
            let q1 = &ia / &ib;
            let q2 = &ia2 / &ib2;
            let r2 = &ia2 % &ib2;
            let r1 = &ia % &ib;
            let q1b = &ia / &ib;
            ensure!(same(&q1, &ra.divrem_trunc(&rb).0), "c05:div-sequence", "{} / {} is not {}", ra.to_dec(), rb.to_dec(), ra.divrem_trunc(&rb).0.to_dec());
            ensure!(same(&q2, &ra2.divrem_trunc(&rb2).0), "c05:div-sequence", "{} / {} computed right after {} / {} is not {}", ra2.to_dec(), rb2.to_dec(), ra.to_dec(), rb.to_dec(), ra2.divrem_trunc(&rb2).0.to_dec());
            ensure!(same(&r2, &ra2.divrem_trunc(&rb2).1), "c05:rem-sequence", "{} % {} computed right after dividing the neighbouring pair is not {}", ra2.to_dec(), rb2.to_dec(), ra2.divrem_trunc(&rb2).1.to_dec());
            ensure!(same(&r1, &ra.divrem_trunc(&rb).1), "c05:rem-sequence", "{} % {} computed right after {} % {} is not {}", ra.to_dec(), rb.to_dec(), ra2.to_dec(), rb2.to_dec(), ra.divrem_trunc(&rb).1.to_dec());
            ensure!(same(&q1b, &ra.divrem_trunc(&rb).0), "c05:div-sequence", "{} / {} computed right after {} % {} is not {}", ra.to_dec(), rb.to_dec(), ra.to_dec(), rb.to_dec(), ra.divrem_trunc(&rb).0.to_dec());
            let m1 = &ia * &ib;
            let m2 = &ia2 * &ib2;
            let s1 = &ia + &ib;
            let s2 = &ia2 + &ib2;
            ensure!(same(&m1, &ra.mul(&rb)), "c05:mul-sequence", "{} * {} is not {}", ra.to_dec(), rb.to_dec(), ra.mul(&rb).to_dec());
            ensure!(same(&m2, &ra2.mul(&rb2)), "c05:mul-sequence", "{} * {} computed right after the neighbouring product is not {}", ra2.to_dec(), rb2.to_dec(), ra2.mul(&rb2).to_dec());
            ensure!(same(&s1, &ra.add(&rb)) && same(&s2, &ra2.add(&rb2)), "c05:add-sequence", "sums of neighbouring pairs {} + {} / {} + {}", ra.to_dec(), rb.to_dec(), ra2.to_dec(), rb2.to_dec());
            // then the full battery on both pairs (counted as ONE case: the sequence)
            let mut inner = Stats::new();
            check(&Case5::Pair { a: a.clone(), b: b.clone() }, &mut inner, tier)?;
            check(&Case5::Pair { a: a2.clone(), b: b2.clone() }, &mut inner, tier)?;
            if !inner.nontrivial.is_empty() {
                st.nontrivial(&(a, b, deltas, on_b), || json!({"sequence": {"a": ra.to_dec(), "b": rb.to_dec(), "then_a": ra2.to_dec(), "then_b": rb2.to_dec()}}));
            }
            st.class("consecutive operations on neighbouring operands");
            Ok(())
        }
        Case5::New(n) => {
            let n = *n as isize;
            let want = RefInt::from_i128(n as i128);
            let got = BigNum::new(n);
            expect(&got, &want, "c05:new", &|| format!("BigNum::new({})", n), display_limit)?;
            let s = format!("{}", got);
            ensure!(s == n.to_string(), "c05:new", "BigNum::new({}) prints {}", n, s);
            st.class(if n.unsigned_abs() >= (1usize << 32) { "new:|n|>=2^32" } else if n.unsigned_abs() >= (1usize << 31) { "new:2^31<=|n|<2^32" } else { "new:|n|<2^31" });
            if n.unsigned_abs() >= (1usize << 31) {
                st.nontrivial(&("new", n), || json!({"new": n as i64}));
            }
            Ok(())
        }
        Case5::Pair { a, b } => {
            let (ra, rb) = (a.to_ref(), b.to_ref());
            let (ia, ib) = (a.to_impl(), b.to_impl());
            let d = |op: &'static str| move || format!("{} {} {}", ra_dec(a), op, ra_dec(b));
            // constructors round trip
            expect(&ia, &ra, "c05:from_vec", &|| format!("from_vec({:?}) neg={}", a.limbs, a.neg), display_limit)?;
            expect(&ib, &rb, "c05:from_vec", &|| format!("from_vec({:?}) neg={}", b.limbs, b.neg), display_limit)?;

            expect(&(&ia + &ib), &ra.add(&rb), "c05:add", &d("+"), display_limit)?;
            expect(&(&ia - &ib), &ra.sub(&rb), "c05:sub", &d("-"), display_limit)?;
            expect(&(&ia * &ib), &ra.mul(&rb), "c05:mul", &d("*"), display_limit)?;
            expect(&(-&ia), &ra.neg(), "c05:neg", &|| format!("-({})", ra_dec(a)), display_limit)?;
            // the named forms of the same operations (value, sign, zero test, low limb; not rendered again)
            expect(&BigNum::add(&ia, &ib), &ra.add(&rb), "c05:add-fn", &d("BigNum::add"), 0)?;
            expect(&BigNum::sub(&ia, &ib), &ra.sub(&rb), "c05:sub-fn", &d("BigNum::sub"), 0)?;
            expect(&BigNum::mul(&ia, &ib), &ra.mul(&rb), "c05:mul-fn", &d("BigNum::mul"), 0)?;
            expect(&BigNum::neg(&ia), &ra.neg(), "c05:neg-fn", &|| format!("BigNum::neg({})", ra_dec(a)), 0)?;
            {
                let mut x = ib.clone();
                x.set_move(ia.clone());
                expect(&x, &ra, "c05:set_move", &|| "set_move".to_string(), display_limit)?;
                let mut x = ia.clone();
                x.minus();
                expect(&x, &ra.neg(), "c05:minus", &|| format!("minus({})", ra_dec(a)), display_limit)?;
                let mut x = ia.clone();
                x += &ib;
                expect(&x, &ra.add(&rb), "c05:add_assign", &d("+="), display_limit)?;
                let mut x = ia.clone();
                x -= &ib;
                expect(&x, &ra.sub(&rb), "c05:sub_assign", &d("-="), display_limit)?;
                let mut x = ia.clone();
                x *= &ib;
                expect(&x, &ra.mul(&rb), "c05:mul_assign", &d("*="), display_limit)?;
                let mut x = BigNum::zero();
                x.set_copy(&ia);
                expect(&x, &ra, "c05:set_copy", &|| "set_copy".to_string(), display_limit)?;
            }
            // equality and order
            let want_ord = ra.cmp(&rb);
            ensure!((ia == ib) == (want_ord == Ordering::Equal), "c05:eq", "{} == {} reported {}", ra_dec(a), ra_dec(b), ia == ib);
            ensure!(ia.partial_cmp(&ib) == Some(want_ord), "c05:cmp", "{} cmp {} reported {:?} want {:?}", ra_dec(a), ra_dec(b), ia.partial_cmp(&ib), want_ord);
            ensure!((ia < ib) == (want_ord == Ordering::Less), "c05:cmp", "{} < {} reported {}", ra_dec(a), ra_dec(b), ia < ib);
            ensure!(ib.partial_cmp(&ia) == Some(want_ord.reverse()), "c05:cmp", "{} cmp {} reported {:?}", ra_dec(b), ra_dec(a), ib.partial_cmp(&ia));
            // every operator form a caller can write (the trait's provided methods may be overridden one by one)
            ensure!((ia > ib) == (want_ord == Ordering::Greater), "c05:cmp-gt", "{} > {} reported {}", ra_dec(a), ra_dec(b), ia > ib);
            ensure!((ia <= ib) == (want_ord != Ordering::Greater), "c05:cmp-le", "{} <= {} reported {}", ra_dec(a), ra_dec(b), ia <= ib);
            ensure!((ia >= ib) == (want_ord != Ordering::Less), "c05:cmp-ge", "{} >= {} reported {}", ra_dec(a), ra_dec(b), ia >= ib);
            ensure!((ia != ib) == (want_ord != Ordering::Equal), "c05:ne", "{} != {} reported {}", ra_dec(a), ra_dec(b), ia != ib);
            ensure!((ib <= ia) == (want_ord != Ordering::Less), "c05:cmp-le", "{} <= {} reported {}", ra_dec(b), ra_dec(a), ib <= ia);
            ensure!((ib >= ia) == (want_ord != Ordering::Greater), "c05:cmp-ge", "{} >= {} reported {}", ra_dec(b), ra_dec(a), ib >= ia);

            let mut qclass = "div:none(b=0)";
            if !rb.is_zero() {
                let (q, r) = ra.divrem_trunc(&rb);
                expect(&(&ia / &ib), &q, "c05:div", &d("/"), display_limit)?;
                expect(&(&ia % &ib), &r, "c05:rem", &d("%"), display_limit)?;
                expect(&BigNum::div(&ia, &ib), &q, "c05:div-fn", &d("BigNum::div"), 0)?;
                expect(&BigNum::rem(&ia, &ib), &r, "c05:rem-fn", &d("BigNum::rem"), 0)?;
                let mut x = ia.clone();
                x /= &ib;
                expect(&x, &q, "c05:div_assign", &d("/="), display_limit)?;
                let mut x = ia.clone();
                x %= &ib;
                expect(&x, &r, "c05:rem_assign", &d("%="), display_limit)?;
                qclass = if q.is_zero() {
                    "div:q=0"
                } else if q.abs() == RefInt::one() {
                    "div:|q|=1"
                } else if q.to_limbs().1.len() >= 2 {
                    "div:q multi-limb"
                } else {
                    "div:q one limb"
                };
                if r.is_zero() {
                    st.class("div:exact");
                }
            }
            st.class(qclass);
            let gcd_limit = tier.pick(8, 10);
            if a.sig_limbs() <= gcd_limit && b.sig_limbs() <= gcd_limit {
                let g = BigNum::gcd(&ia, &ib);
                let mut ga = g.clone();
                if !ga.is_pos() {
                    ga.minus();
                }
                expect(&ga, &ra.gcd(&rb), "c05:gcd", &|| format!("|gcd({}, {})|", ra_dec(a), ra_dec(b)), display_limit)?;
                st.class("gcd checked");
            }
            // classes
            st.class(match (a.neg && !ra.is_zero(), b.neg && !rb.is_zero()) {
                (false, false) => "sign:++",
                (false, true) => "sign:+-",
                (true, false) => "sign:-+",
                (true, true) => "sign:--",
            });
            st.class(if a.sig_limbs() == b.sig_limbs() { "len:equal" } else { "len:different" });
            let sum_len = ra.abs().add(&rb.abs()).to_limbs().1.len();
            if sum_len > a.sig_limbs().max(b.sig_limbs()) {
                st.class("add:carry out of top limb");
            }
            if a.sig_limbs() >= 2 && a.sig_limbs() == b.sig_limbs() && a.limbs[a.sig_limbs() - 1] == b.limbs[b.sig_limbs() - 1] && ra.abs() != rb.abs() {
                st.class("cmp:equal top limb, different below");
            }
            let diff_len = ra.abs().sub(&rb.abs()).to_limbs().1.len();
            if diff_len + 1 < a.sig_limbs().max(b.sig_limbs()) {
                st.class("sub:borrow/cancel across >=2 limbs");
            }
            let trivial = |x: &RefInt| x.is_zero() || x.abs() == RefInt::one();
            if !trivial(&ra) && !trivial(&rb) && ((a.sig_limbs() >= 2 && b.sig_limbs() >= 2) || a.has_boundary_limb() || b.has_boundary_limb()) {
                st.nontrivial(&(a, b), || json!({"a": ra.to_dec(), "b": rb.to_dec(), "a_limbs": a.limbs, "b_limbs": b.limbs}));
            }
            Ok(())
        }
    }
}

fn ra_dec(b: &Big) -> String {
    b.to_ref().to_dec()
}

pub fn run(ctx: &Ctx, out: &mut Outcome) {
    let tier = ctx.tier;
    let max = tier.pick(8, 24);
    let n_pairs = tier.pick(40_000, 250_000);
    search::<Case5>(ctx, out, "pairs", n_pairs, &move || pair_strategy(max), &move |c, st| check(c, st, tier));
    // a band of short operands: dense coverage of 1-3 limb patterns
    search::<Case5>(ctx, out, "pairs-short", tier.pick(40_000, 400_000), &|| pair_strategy(3), &move |c, st| check(c, st, tier));
    search::<Case5>(ctx, out, "runs", tier.pick(12_000, 150_000), &runs_strategy, &move |c, st| check(c, st, tier));
    search::<Case5>(ctx, out, "near-sequences", tier.pick(100_000, 600_000), &|| near_sequence_strategy(3), &move |c, st| check(c, st, tier));
    search::<Case5>(ctx, out, "new", tier.pick(20_000, 200_000), &new_strategy, &move |c, st| check(c, st, tier));
    if !out.failed() {
        python_stage(ctx, out, ctx.seed ^ 0xC05, tier.pick(1_000, 20_000));
    }
}

/// implementation results (integers and rationals) re-computed by python3
fn python_stage(ctx: &Ctx, out: &mut Outcome, seed: u64, n: usize) {
    let t0 = std::time::Instant::now();
    let recs = match guarded("pyrecords", || crate::pyoracle::implementation_records(seed, n)) {
        Ok(r) => r,
        Err(f) => {
            let v = json!({"property": ctx.id, "stage": "python-cross-oracle", "sig": f.sig, "msg": f.msg, "case": Case5::PyRecords { seed, n }.to_json()});
            let p = write_failure(&ctx.verif.join("failures"), &ctx.id, &v);
            out.violations.push((f, p));
            return;
        }
    };
    let lines = recs.lines().count() as u64;
    match crate::pyoracle::run_python(&ctx.verif, &ctx.scratch, &recs, "impl") {
        Ok(summary) => {
            out.stats.evaluations += lines;
            out.stats.class_n("records re-computed by python3", lines);
            out.stages.push(json!({"stage": "python-cross-oracle", "cases": lines, "wall_s": t0.elapsed().as_secs_f64(), "summary": summary}));
        }
        Err(report) => {
            if report.starts_with("harness:") {
                out.inconclusive.push(report);
                return;
            }
            let f = Failure::new("c05:python", format!("python3 disagrees with implementation results: {}", report.chars().take(1500).collect::<String>()));
            let v = json!({"property": ctx.id, "stage": "python-cross-oracle", "sig": f.sig, "msg": f.msg, "case": Case5::PyRecords { seed, n }.to_json()});
            let p = write_failure(&ctx.verif.join("failures"), &ctx.id, &v);
            out.violations.push((f, p));
        }
    }
}

pub fn replay(ctx: &Ctx, v: &Value) -> Result<CheckResult, String> {
    if let Some(Case5::PyRecords { seed, n }) = Case5::from_json(&v["case"]) {
        let recs = match guarded("pyrecords", || crate::pyoracle::implementation_records(seed, n)) {
            Ok(r) => r,
            Err(f) => return Ok(Err(f)),
        };
        return match crate::pyoracle::run_python(&ctx.verif, &ctx.scratch, &recs, "impl") {
            Ok(_) => Ok(Ok(())),
            Err(r) if r.starts_with("harness:") => Err(r),
            Err(r) => Ok(Err(Failure::new("c05:python", r))),
        };
    }
    replay_case::<Case5>(v, &|c, st| check(c, st, Tier::Thorough))
}

pub fn gates(out: &Outcome, tier: Tier) -> Vec<String> {
    let mut v = Vec::new();
    let need = |v: &mut Vec<String>, class: &str, min: u64| {
        if out.stats.get(class) < min {
            v.push(format!("class '{}' has {} cases, need >= {}", class, out.stats.get(class), min));
        }
    };
    let m = tier.pick(1, 10);
    for s in ["sign:++", "sign:+-", "sign:-+", "sign:--"] {
        need(&mut v, s, 2000 * m);
    }
    need(&mut v, "div:q multi-limb", 1000 * m);
    need(&mut v, "div:q=0", 1000 * m);
    need(&mut v, "div:exact", 500 * m);
    need(&mut v, "cmp:equal top limb, different below", 500 * m);
    need(&mut v, "add:carry out of top limb", 500 * m);
    need(&mut v, "new:|n|>=2^32", 2000 * m);
    need(&mut v, "gcd checked", 5000 * m);
    v
}
