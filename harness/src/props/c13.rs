//! C13 — the command-line tool ends in a defined way on any file and any input.

use super::c01::describe_end;
use crate::engine::*;
use crate::gen::*;
use crate::proc;
use crate::refexec::*;
use crate::refparse::ref_parse;
use crate::{ensure, fail};
use proptest::prelude::*;
use serde_json::{json, Value};
use std::collections::VecDeque;
use std::time::Duration;

pub const RULE: &str = "cases = (file bytes, file name, stdin bytes, sub-command): file = generated program (rendered with junk, multi-limb arithmetic incl. power-of-two factors, deep areas up to 4096 \
operators, large counts) | such a program with an invalid byte spliced in | valid UTF-8 cut in the middle of its last multi-byte character | random bytes | empty; \
name = p.hyeong | p.txt | no extension | .hyeong | missing file | a directory called d.hyeong; stdin = valid text | text with an invalid byte on some line | \
random bytes | empty; sub-command = run -O0/-O1/-O2 | check. A byte-level model predicts the exit status: unreadable / wrong extension / file not UTF-8 -> 1 with a \
diagnostic; input line that is not UTF-8 and is actually read -> 1 with a diagnostic; non-scalar output value -> 1 with a diagnostic; requested exit -> its status; \
otherwise 0; and the tool must never end by signal, status 101 or a panic message. non-trivial = a failure path is taken, or the program reads or writes; \
distinct = distinct case";

#[derive(Clone, Debug, PartialEq, Eq, Hash)]
pub enum NameKind {
    Hyeong,
    Txt,
    NoExt,
    DotHyeong,
    Missing,
    Directory,
    Upper,
}

#[derive(Clone, Debug)]
pub struct Case13 {
    pub file: Vec<u8>,
    pub name: NameKind,
    pub stdin: Vec<u8>,
    /// 0..=2 = run at that level, 3 = check
    pub sub: u8,
}

fn hex(b: &[u8]) -> String {
    b.iter().map(|x| format!("{:02x}", x)).collect()
}
fn unhex(s: &str) -> Option<Vec<u8>> {
    if s.len() % 2 != 0 {
        return None;
    }
    (0..s.len() / 2).map(|i| u8::from_str_radix(&s[2 * i..2 * i + 2], 16).ok()).collect()
}

impl Case for Case13 {
    fn to_json(&self) -> Value {
        json!({
            "file_hex": hex(&self.file), "file_lossy": String::from_utf8_lossy(&self.file).chars().take(400).collect::<String>(),
            "name": format!("{:?}", self.name), "stdin_hex": hex(&self.stdin), "stdin_lossy": String::from_utf8_lossy(&self.stdin), "sub": self.sub,
        })
    }
    fn from_json(v: &Value) -> Option<Self> {
        let name = match v.get("name")?.as_str()? {
            "Hyeong" => NameKind::Hyeong,
            "Txt" => NameKind::Txt,
            "NoExt" => NameKind::NoExt,
            "DotHyeong" => NameKind::DotHyeong,
            "Missing" => NameKind::Missing,
            "Directory" => NameKind::Directory,
            "Upper" => NameKind::Upper,
            _ => return None,
        };
        Some(Case13 { file: unhex(v.get("file_hex")?.as_str()?)?, name, stdin: unhex(v.get("stdin_hex")?.as_str()?)?, sub: v.get("sub")?.as_u64()? as u8 })
    }
}

/// what the tool must do
#[derive(Clone, Debug, PartialEq)]
enum Expect {
    /// exit status and whether a diagnostic must be present
    Status { code: i32, diagnostic: bool, what: &'static str },
    /// only "no panic, status 0 or 1" is demanded (unspecified output value / run too long to predict)
    Defined(&'static str),
    Skip(&'static str),
}

fn stdin_lines(bytes: &[u8]) -> VecDeque<String> {
    let mut v = VecDeque::new();
    for line in bytes.split_inclusive(|&b| b == b'\n') {
        match std::str::from_utf8(line) {
            Ok(s) => v.push_back(s.to_string()),
            Err(_) => v.push_back(INVALID_LINE.to_string()),
        }
    }
    v
}

fn predict(c: &Case13, budget: usize) -> (Expect, Option<RunResult>) {
    match c.name {
        NameKind::Txt | NameKind::NoExt | NameKind::DotHyeong | NameKind::Upper => return (Expect::Status { code: 1, diagnostic: true, what: "not a .hyeong file" }, None),
        NameKind::Missing => return (Expect::Status { code: 1, diagnostic: true, what: "missing file" }, None),
        NameKind::Directory => return (Expect::Status { code: 1, diagnostic: true, what: "directory" }, None),
        NameKind::Hyeong => {}
    }
    let text = match std::str::from_utf8(&c.file) {
        Ok(t) => t,
        Err(_) => return (Expect::Status { code: 1, diagnostic: true, what: "file is not UTF-8" }, None),
    };
    if c.sub == 3 {
        return (Expect::Status { code: 0, diagnostic: false, what: "check of a readable file" }, None);
    }
    let cmds: Vec<MCmd> = ref_parse(text).iter().map(|p| MCmd { kind: p.kind, h: p.h, d: p.d, area: p.area.clone() }).collect();
    if cmds.iter().any(|c| (c.h as u128) * (c.d as u128) >= (1u128 << 31) || c.h >= 1 << 20) {
        return (Expect::Skip("counts outside the claimed domain"), None);
    }
    let m = run_model_opts(&cmds, stdin_lines(&c.stdin), budget, 7, false, true);
    if m.flags.stack_ops > 4_000_000 {
        return (Expect::Skip("more than 4 million stack operations (too slow to judge with a fixed CPU limit)"), None);
    }
    if m.flags.unspecified_outputs > 0 {
        let e = match &m.end {
            End::Normal | End::Stop(Stop::Exit(_)) | End::Stop(Stop::Encoding(_)) | End::Stop(Stop::InputError) => Expect::Defined("output value >= 2^32 (unspecified character)"),
            End::Stop(Stop::Unspecified) => Expect::Skip("unreachable"),
            End::Stop(Stop::TooBig) => Expect::Skip("values over the size cap"),
            End::Budget => Expect::Skip("does not end within the model budget"),
        };
        return (e, Some(m));
    }
    let e = match &m.end {
        End::Normal => Expect::Status { code: 0, diagnostic: false, what: "normal end" },
        End::Stop(Stop::Exit(code)) => Expect::Status { code: *code, diagnostic: false, what: "requested exit" },
        End::Stop(Stop::Encoding(_)) => Expect::Status { code: 1, diagnostic: true, what: "output value is not a scalar value" },
        End::Stop(Stop::InputError) => Expect::Status { code: 1, diagnostic: true, what: "input line is not UTF-8" },
        End::Stop(Stop::Unspecified) => Expect::Defined("output value >= 2^32 (unspecified character)"),
        End::Stop(Stop::TooBig) => Expect::Skip("values over the size cap"),
        End::Budget => Expect::Skip("does not end within the model budget"),
    };
    (e, Some(m))
}

pub fn check(c: &Case13, st: &mut Stats, bin: &std::path::Path, scratch: &std::path::Path, budget: usize) -> CheckResult {
    let (expect, model) = predict(c, budget);
    if let Expect::Skip(why) = expect {
        st.exclude(why);
        return Ok(());
    }
    let dir = proc::scratch_dir(scratch, "c13");
    let path = match c.name {
        NameKind::Hyeong => dir.join("p.hyeong"),
        NameKind::Txt => dir.join("p.txt"),
        NameKind::NoExt => dir.join("p"),
        NameKind::DotHyeong => dir.join(".hyeong"),
        NameKind::Upper => dir.join("p.HYEONG"),
        NameKind::Missing => dir.join("nothing-here.hyeong"),
        NameKind::Directory => dir.join("d.hyeong"),
    };
    match c.name {
        NameKind::Missing => {}
        NameKind::Directory => {
            let _ = std::fs::create_dir_all(&path);
        }
        _ => {
            if let Err(e) = std::fs::write(&path, &c.file) {
                st.trouble(format!("scratch write: {}", e));
                return Ok(());
            }
        }
    }
    let lvl = format!("-O{}", c.sub.min(2));
    let args: Vec<&str> = if c.sub == 3 { vec!["--color", "never", "check", path.to_str().unwrap()] } else { vec!["--color", "never", "run", &lvl, path.to_str().unwrap()] };
    let mut o = proc::RunOpts::new(&c.stdin);
    // level-2 pre-execution is quadratic in the number of commands: long programs get a CPU limit to match
    let cpu = if c.file.len() > 60_000 { 120 } else { 20 };
    o.cpu_secs = Some(cpu);
    o.wall = Duration::from_secs(120 + 4 * cpu);
    o.out_cap = 8 << 20;
    let r = proc::run(bin, &args, &o);
    let _ = std::fs::remove_dir_all(&dir);
    let r = match r {
        Ok(r) => r,
        Err(e) => {
            st.trouble(format!("cannot spawn hyeong: {}", e));
            return Ok(());
        }
    };
    let what = if c.sub == 3 { "check".to_string() } else { format!("run -O{}", c.sub) };
    let sig = |s: &str| format!("c13:{}:{}", if c.sub == 3 { "check".to_string() } else { format!("O{}", c.sub) }, s);
    let err = r.err_str();
    match r.status {
        proc::Status::Timeout => {
            st.trouble(format!("wall-clock watchdog fired on `hyeong {}`", what));
            return Ok(());
        }
        proc::Status::Signal(s) => fail!(&sig("signal"), "`hyeong {}` was killed by signal {} ({:?}); stderr {:?}", what, s, expect, err.chars().take(300).collect::<String>()),
        proc::Status::Code(code) => {
            ensure!(code != 101 && !err.contains("panicked at"), &sig("panic"), "`hyeong {}` panicked (status {}): {:?}", what, code, err.chars().take(400).collect::<String>());
            match &expect {
                Expect::Status { code: want, diagnostic, what: why } => {
                    ensure!(code == *want, &sig("status"), "`hyeong {}` ended with status {} want {} ({}); stderr {:?}", what, code, want, why, err.chars().take(300).collect::<String>());
                    if *diagnostic {
                        // a diagnostic = something on stderr that the program did not write itself; at level 2 the program's own
                        // text may be withheld, so the test is "stderr is not a prefix of what the program writes", not a length comparison
                        let program_err: &[u8] = model.as_ref().map(|m| m.err.as_bytes()).unwrap_or(b"");
                        ensure!(!r.stderr.is_empty() && !program_err.starts_with(&r.stderr), &sig("diagnostic"), "`hyeong {}` ended with status 1 ({}) without printing a diagnostic; stderr {:?}", what, why, err);
                    }
                    st.class(&format!("{}: {}", if c.sub == 3 { "check" } else { "run" }, why));
                    if c.sub < 3 {
                        st.class(&format!("run at level {}", c.sub));
                    }
                }
                Expect::Defined(why) => {
                    ensure!(code == 0 || code == 1, &sig("status"), "`hyeong {}` ended with status {} ({})", what, code, why);
                    st.class(&format!("run: {}", why));
                }
                Expect::Skip(_) => {}
            }
        }
    }
    let failure_path = matches!(expect, Expect::Status { code: 1, diagnostic: true, .. });
    let io = model.as_ref().map(|m| m.flags.input_reads > 0 || m.flags.out_writes > 0).unwrap_or(false);
    if let Some(m) = &model {
        st.class(describe_end(&m.end));
    }
    if failure_path || io {
        st.nontrivial(&(&c.file, &c.name, &c.stdin, c.sub), || {
            json!({"file": String::from_utf8_lossy(&c.file).chars().take(120).collect::<String>(), "name": format!("{:?}", c.name), "stdin": String::from_utf8_lossy(&c.stdin).chars().take(60).collect::<String>(), "sub": what, "expect": format!("{:?}", expect)})
        });
    }
    Ok(())
}

fn file_bytes() -> BoxedStrategy<Vec<u8>> {
    let program_text = prop_oneof![
        6 => program_with_jumps(&Profile::general(20)).prop_map(|c| crate::refparse::render_canonical(&c)),
        3 => super::c08::rendered_strategy(8, true).prop_map(|(_, _, t)| t),
        // programs that write non-scalar values / values around 2^32 to the output stacks
        3 => (prop::sample::select(vec![(0xD800usize, 1usize), (0xDC00, 1), (0xDFFF, 1), (0xDE00, 1), (0x110000, 1), (0x10FFFF, 1), (0xE000, 1), (65536, 65536), (65535, 65537), (300, 1000), (0xD7FF, 1)]), 1usize..=2, program_with_jumps(&Profile::general(6)))
            .prop_map(|((a, b), target, mut rest)| {
                use crate::refparse::RCmd;
                let mut v = vec![RCmd::new(0, 1, a)];
                if b > 1 {
                    v.push(RCmd::new(0, 1, b));
                    v.push(RCmd::new(2, 2, 3));
                }
                v.push(RCmd::new(1, 1, target));
                let pos = rest.len() / 2;
                let tail = rest.split_off(pos);
                rest.extend(v);
                rest.extend(tail);
                crate::refparse::render_canonical(&rest)
            }),
        // arithmetic on values of several limbs (products, squares, reciprocals; factors incl. powers of two)
        2 => super::c01::big_value_case().prop_map(|c| crate::refparse::render_canonical(&c.cmds)),
        1 => super::c04::any_char().prop_map(|c| c.to_string()),
        1 => prop::collection::vec(super::c04::any_char(), 0..40).prop_map(|v| v.into_iter().collect::<String>()),
    ];
    prop_oneof![
        10 => program_text.clone().prop_map(|t| t.into_bytes()),
        // invalid byte spliced in
        2 => (program_text.clone(), any::<u16>(), prop::sample::select(vec![0xFFu8, 0x80, 0xC0, 0xF8, 0xED])).prop_map(|(t, at, b)| {
            let mut v = t.into_bytes();
            let pos = pick_idx(at, v.len() + 1);
            v.insert(pos, b);
            v
        }),
        // valid text ending inside a multi-byte character
        2 => (program_text.clone(), prop::sample::select(vec!["형", "é", "😀", "…"]), 1usize..4).prop_map(|(t, ch, cut)| {
            let mut v = t.into_bytes();
            let b = ch.as_bytes();
            v.extend_from_slice(&b[..cut.min(b.len() - 1)]);
            v
        }),
        1 => prop::collection::vec(any::<u8>(), 0..60),
        1 => Just(Vec::new()),
    ]
    .boxed()
}

fn stdin_bytes() -> BoxedStrategy<Vec<u8>> {
    prop_oneof![
        6 => stdin_text().prop_map(|s| s.into_bytes()),
        3 => (stdin_text(), any::<u16>(), prop::sample::select(vec![0xFFu8, 0x80, 0xC3, 0xED, 0xF0])).prop_map(|(t, at, b)| {
            let mut v = t.into_bytes();
            let pos = pick_idx(at, v.len() + 1);
            v.insert(pos, b);
            v
        }),
        // valid text whose last (unterminated) line ends inside a multi-byte character
        2 => (stdin_text(), prop::sample::select(vec!["é", "한", "😀", "€"]), 1usize..4, any::<bool>()).prop_map(|(t, ch, cut, strip_nl)| {
            let mut t = t;
            if strip_nl {
                while t.ends_with('\n') || t.ends_with('\r') {
                    t.pop();
                }
            }
            let mut v = t.into_bytes();
            let b = ch.as_bytes();
            v.extend_from_slice(&b[..cut.min(b.len() - 1)]);
            v
        }),
        1 => prop::collection::vec(any::<u8>(), 0..40),
        1 => Just(Vec::new()),
    ]
    .boxed()
}

/// files whose `check` listing has index / line / column values around powers of ten (column widths change there)
fn wide_listing_strategy() -> BoxedStrategy<Case13> {
    let n = prop::sample::select(vec![9usize, 10, 11, 99, 100, 101, 999, 1000, 1001, 1002, 9999, 10000, 10001]);
    (n, 0u8..4, prop::sample::select(vec![0usize, 9, 10, 99, 100, 999, 1000, 1001, 9999, 10000]), prop::sample::select(vec![0usize, 9, 10, 99, 100, 999, 1000, 1001, 10000]), 0u8..4)
        .prop_map(|(n, mode, lines, cols, sub)| {
            let mut text = String::new();
            match mode {
                0 => {
                    for i in 0..n {
                        text.push(crate::refparse::ONE_SYLLABLE[i % 5]);
                        text.push(' ');
                    }
                }
                1 => {
                    // one command per line
                    for i in 0..n {
                        text.push(crate::refparse::ONE_SYLLABLE[i % 5]);
                        text.push('\n');
                    }
                }
                _ => {
                    // a few commands, one of them far down / far to the right
                    text.push_str("형. 항... ");
                    for _ in 0..lines {
                        text.push('\n');
                    }
                    for _ in 0..cols {
                        text.push(' ');
                    }
                    text.push_str("형.. 항... 형");
                }
            }
            Case13 { file: text.into_bytes(), name: NameKind::Hyeong, stdin: Vec::new(), sub: if sub == 0 { 0 } else { 3 } }
        })
        .boxed()
}

fn strategy() -> BoxedStrategy<Case13> {
    let name = prop_oneof![
        14 => Just(NameKind::Hyeong),
        1 => Just(NameKind::Txt),
        1 => Just(NameKind::NoExt),
        1 => Just(NameKind::DotHyeong),
        1 => Just(NameKind::Upper),
        1 => Just(NameKind::Missing),
        1 => Just(NameKind::Directory),
    ];
    (file_bytes(), name, stdin_bytes(), prop_oneof![2 => Just(0u8), 2 => Just(1u8), 3 => Just(2u8), 1 => Just(3u8)]).prop_map(|(file, name, stdin, sub)| Case13 { file, name, stdin, sub }).boxed()
}

/// single commands with very long area chains and huge counts
fn deep_strategy() -> BoxedStrategy<Case13> {
    (prop::collection::vec(prop_oneof![3 => Just('?'), 3 => Just('!'), 2 => prop::sample::select(crate::refparse::HEARTS.to_vec())], 0..4096), 0usize..6, 0usize..4, 0u8..4)
        .prop_map(|(v, k, d, sub)| {
            let text = format!("형.. {}{}{}", crate::refparse::ONE_SYLLABLE[k], ".".repeat(d), v.into_iter().collect::<String>());
            Case13 { file: text.into_bytes(), name: NameKind::Hyeong, stdin: Vec::new(), sub }
        })
        .boxed()
}

pub fn run(ctx: &Ctx, out: &mut Outcome) {
    let t = ctx.tier;
    let bin = ctx.hyeong_bin();
    let scratch = ctx.scratch.clone();
    let budget = t.pick(3000, 20000);
    {
        let (bin, scratch) = (bin.clone(), scratch.clone());
        search::<Case13>(ctx, out, "cli", t.pick(12_000, 150_000), &strategy, &move |c, st| check(c, st, &bin, &scratch, budget));
    }
    {
        let (bin, scratch) = (bin.clone(), scratch.clone());
        search::<Case13>(ctx, out, "wide-listings", t.pick(400, 3_000), &wide_listing_strategy, &move |c, st| check(c, st, &bin, &scratch, 40_000));
    }
    {
        // kilobytes of multi-byte output produced without input (at level 2: during pre-execution)
        let (bin, scratch) = (bin.clone(), scratch.clone());
        search::<Case13>(
            ctx,
            out,
            "big-output",
            t.pick(32, 200),
            &|| (super::c02::big_output_strategy(), 0u8..3).prop_map(|(c, sub)| Case13 { file: c.0.text().into_bytes(), name: NameKind::Hyeong, stdin: b"xy\n".to_vec(), sub }).boxed(),
            &move |c, st| check(c, st, &bin, &scratch, 400_000),
        );
    }
    search::<Case13>(ctx, out, "deep-areas", t.pick(300, 3_000), &deep_strategy, &move |c, st| check(c, st, &bin, &scratch, budget));
}

pub fn replay(ctx: &Ctx, v: &Value) -> Result<CheckResult, String> {
    let bin = ctx.hyeong_bin();
    let scratch = ctx.scratch.clone();
    replay_case::<Case13>(v, &move |c, st| check(c, st, &bin, &scratch, 20000))
}

pub fn gates(out: &Outcome, tier: Tier) -> Vec<String> {
    let mut v = Vec::new();
    let m = tier.pick(1, 8);
    for (class, min) in [
        ("run: not a .hyeong file", 300u64),
        ("run: missing file", 80),
        ("run: directory", 80),
        ("run: file is not UTF-8", 800),
        ("run: input line is not UTF-8", 60),
        ("run: output value is not a scalar value", 200),
        ("run: output value >= 2^32 (unspecified character)", 20),
        ("run: requested exit", 500),
        ("run: normal end", 2000),
        ("check: check of a readable file", 500),
        ("check: file is not UTF-8", 80),
        ("run at level 0", 1000),
        ("run at level 1", 1000),
        ("run at level 2", 1500),
    ] {
        if out.stats.get(class) < min * m {
            v.push(format!("class '{}' has {} cases, need >= {}", class, out.stats.get(class), min * m));
        }
    }
    v
}
