//! C14 — Unicode text passes through a program unchanged.

use super::c03::{emit_and_compile, Paths};
use crate::engine::*;
use crate::proc;
use crate::refexec::*;
use crate::refnum::NAN_TEXT;
use crate::refparse::{render_canonical, RCmd};
use crate::{ensure, fail};
use proptest::prelude::*;
use serde_json::{json, Value};
use std::path::PathBuf;
use std::sync::OnceLock;
use std::time::Duration;

pub const RULE: &str = "cases = valid UTF-8 texts: characters drawn uniformly per encoding length (1, 2, 3, 4 bytes) plus the boundaries U+0000, \
U+007F/80, U+07FF/800, U+D7FF/E000, U+FFFF/10000, U+10FFFF, line breaks \\n and \\r\\n, empty lines, missing final line break, and long lines \
(up to ~200 KB) with multi-byte characters placed across 4 KiB / 8 KiB / 64 KiB / 128 KiB byte offsets; each text is fed to a fixed family of copy programs \
(copy the first k characters for k in 1, 2, 7, 64 to stdout, 5 to stderr; duplicate each of the first 3 characters; copy until end of input) in six configurations \
(`hyeong run -O0/-O1/-O2`, executables compiled at levels 0/1/2); the output bytes must equal the known function of the input bytes (identity on the \
copied characters, the NaN text for every pop beyond the end of input, and only then). non-trivial = text has >= 4 characters and (>= 2 lines or a character of >= 3 bytes); \
distinct = distinct text";

#[derive(Clone, Debug)]
pub struct Case14 {
    pub text: String,
}

impl Case for Case14 {
    fn to_json(&self) -> Value {
        if self.text.len() > 4000 {
            // long texts: store a compact description that reproduces them exactly
            json!({"text_b64ish": self.text.chars().map(|c| format!("{:x}", c as u32)).collect::<Vec<_>>().join(" ")})
        } else {
            json!({"text": self.text, "escaped": self.text.escape_default().to_string()})
        }
    }
    fn from_json(v: &Value) -> Option<Self> {
        if let Some(t) = v.get("text").and_then(|t| t.as_str()) {
            return Some(Case14 { text: t.to_string() });
        }
        let s = v.get("text_b64ish")?.as_str()?;
        let mut text = String::new();
        for tok in s.split_whitespace() {
            text.push(char::from_u32(u32::from_str_radix(tok, 16).ok()?)?);
        }
        Some(Case14 { text })
    }
}

#[derive(Clone, Debug)]
pub struct FamilyProg {
    pub name: &'static str,
    pub cmds: Vec<RCmd>,
    pub kind: Kind,
}

#[derive(Clone, Copy, Debug, PartialEq)]
pub enum Kind {
    CopyOut(usize),
    CopyErr(usize),
    Dup(usize),
    Cat,
}

pub fn family() -> Vec<FamilyProg> {
    let copy = |k: usize, target: usize| {
        let mut v = vec![RCmd::new(5, 1, 0)];
        for _ in 0..k {
            v.push(RCmd::new(1, 1, target));
        }
        v
    };
    let dup = |k: usize| {
        let mut v = vec![RCmd::new(5, 1, 0)];
        for _ in 0..k {
            v.push(RCmd::new(5, 1, 0));
            v.push(RCmd::new(1, 1, 1));
            v.push(RCmd::new(1, 1, 1));
        }
        v
    };
    let ps = |a: &str| crate::refparse::parse_shape(a).unwrap();
    // 흑 형💖 하앙. 흑 형 하앗💖!
    let cat: Vec<RCmd> = vec![
        RCmd::new(5, 1, 0),
        RCmd::with_area(0, 1, 0, ps("💖")),
        RCmd::new(1, 2, 1),
        RCmd::new(5, 1, 0),
        RCmd::new(0, 1, 0),
        RCmd::with_area(2, 2, 0, ps("💖!")),
    ];
    vec![
        FamilyProg { name: "copy-1", cmds: copy(1, 1), kind: Kind::CopyOut(1) },
        FamilyProg { name: "copy-2", cmds: copy(2, 1), kind: Kind::CopyOut(2) },
        FamilyProg { name: "copy-7", cmds: copy(7, 1), kind: Kind::CopyOut(7) },
        FamilyProg { name: "copy-64", cmds: copy(64, 1), kind: Kind::CopyOut(64) },
        FamilyProg { name: "ecopy-5", cmds: copy(5, 2), kind: Kind::CopyErr(5) },
        FamilyProg { name: "dup-3", cmds: dup(3), kind: Kind::Dup(3) },
        FamilyProg { name: "cat", cmds: cat, kind: Kind::Cat },
    ]
}

/// the known function of each family program: (stdout, stderr)
pub fn expected(kind: Kind, input: &str) -> (String, String) {
    let chars: Vec<char> = input.chars().collect();
    let take = |k: usize, times: usize| -> String {
        let mut s = String::new();
        for i in 0..k {
            for _ in 0..times {
                match chars.get(i) {
                    Some(c) => s.push(*c),
                    None => s.push_str(NAN_TEXT),
                }
            }
        }
        s
    };
    match kind {
        Kind::CopyOut(k) => (take(k, 1), String::new()),
        Kind::CopyErr(k) => (String::new(), take(k, 1)),
        Kind::Dup(k) => (take(k, 2), String::new()),
        Kind::Cat => (if input.is_empty() { NAN_TEXT.to_string() } else { input.to_string() }, String::new()),
    }
}

static EXES: OnceLock<Vec<Vec<Option<PathBuf>>>> = OnceLock::new(); // [program][level]
static COMPILE_FAILURE: OnceLock<Option<Failure>> = OnceLock::new();

/// compile every family program once per level
pub fn prepare(ctx: &Ctx) -> Result<(), String> {
    let bin = ctx.hyeong_bin();
    let rlib = ctx.rlib();
    let hv = std::env::current_exe().map_err(|e| e.to_string())?;
    let fam = family();
    let dir = ctx.scratch.join("c14-exes");
    std::fs::create_dir_all(&dir).map_err(|e| e.to_string())?;
    let jobs: Vec<(usize, u8)> = (0..fam.len()).flat_map(|i| (0u8..3).map(move |l| (i, l))).collect();
    let results: Vec<(usize, u8, Result<Option<PathBuf>, Failure>)> = std::thread::scope(|s| {
        let hs: Vec<_> = jobs
            .iter()
            .map(|&(i, l)| {
                let (bin, rlib, hv, dir, fam) = (&bin, &rlib, &hv, &dir, &fam);
                s.spawn(move || {
                    let d = dir.join(format!("{}-{}", fam[i].name, l));
                    let _ = std::fs::create_dir_all(&d);
                    let p = Paths { bin, hv, rlib, scratch: dir };
                    let mut st = Stats::new();
                    let r = emit_and_compile(&p, &d, &render_canonical(&fam[i].cmds), l, &mut st).map(|o| o.map(|x| x.0));
                    (i, l, r)
                })
            })
            .collect();
        hs.into_iter().map(|h| h.join().unwrap()).collect()
    });
    let mut exes = vec![vec![None; 3]; fam.len()];
    let mut failure = None;
    for (i, l, r) in results {
        match r {
            Ok(Some(p)) => exes[i][l as usize] = Some(p),
            Ok(None) => failure = Some(Failure::new("c14:compile", format!("family program {} could not be optimised at level {}", fam[i].name, l))),
            Err(f) if f.sig.starts_with("harness:") => return Err(format!("compiling the family programs: {}", f.msg)),
            Err(f) => failure = Some(Failure::new("c14:compile", format!("family program {} at level {}: {}", fam[i].name, l, f.msg))),
        }
    }
    let _ = EXES.set(exes);
    let _ = COMPILE_FAILURE.set(failure);
    Ok(())
}

fn show(b: &[u8]) -> String {
    let s = String::from_utf8_lossy(b);
    if s.chars().count() > 120 {
        format!("{}…({} bytes)", s.chars().take(120).collect::<String>().escape_default(), b.len())
    } else {
        s.escape_default().to_string()
    }
}

fn first_diff(a: &[u8], b: &[u8]) -> usize {
    a.iter().zip(b.iter()).position(|(x, y)| x != y).unwrap_or(a.len().min(b.len()))
}

pub fn check(c: &Case14, st: &mut Stats, bin: &std::path::Path, scratch: &std::path::Path) -> CheckResult {
    if let Some(Some(f)) = COMPILE_FAILURE.get() {
        return Err(f.clone());
    }
    let exes = EXES.get().ok_or_else(|| Failure::new("harness:prepare", "family executables missing"))?;
    let fam = family();
    let long = c.text.len() > 20_000;
    for (i, fp) in fam.iter().enumerate() {
        if long && !matches!(fp.kind, Kind::Cat | Kind::CopyOut(64)) {
            continue;
        }
        if c.text.len() > 600_000 && fp.kind == Kind::Cat {
            continue;
        }
        let (want_out, want_err) = expected(fp.kind, &c.text);
        // the closed form must agree with the reference interpreter (harness sanity)
        if !long {
            let cmds: Vec<MCmd> = fp.cmds.iter().map(MCmd::from_rcmd).collect();
            let m = run_model(&cmds, &c.text, 10_000_000, usize::MAX, false);
            if m.end != End::Normal || m.out != want_out || m.err != want_err {
                st.trouble(format!("family program {}: closed form and reference model disagree on {:?}", fp.name, c.text));
                return Ok(());
            }
        }
        let text = render_canonical(&fp.cmds);
        for cfg in 0..6usize {
            let (label, out, err, status) = if cfg < 3 {
                let r = proc::run_hyeong(bin, scratch, &text, cfg as u8, c.text.as_bytes(), |o| {
                    o.cpu_secs = Some(60);
                    o.wall = Duration::from_secs(240);
                })
                .map_err(|e| Failure::new("harness:spawn", e.to_string()))?;
                (format!("hyeong run -O{}", cfg), r.out, r.raw.stderr, r.raw.status)
            } else {
                let exe = match &exes[i][cfg - 3] {
                    Some(e) => e,
                    None => continue,
                };
                let mut o = proc::RunOpts::new(c.text.as_bytes());
                o.cpu_secs = Some(60);
                o.wall = Duration::from_secs(240);
                let r = proc::run(exe, &[], &o).map_err(|e| Failure::new("harness:spawn", e.to_string()))?;
                (format!("compiled at level {}", cfg - 3), r.stdout, r.stderr, r.status)
            };
            if status == proc::Status::Timeout {
                st.trouble(format!("wall-clock watchdog fired: {} {}", fp.name, label));
                return Ok(());
            }
            let sig = format!("c14:{}:{}", fp.name, if cfg < 3 { format!("O{}", cfg) } else { format!("compiled{}", cfg - 3) });
            ensure!(status == proc::Status::Code(0), &sig, "{} [{}] ended with {:?} on input {:?}; stderr {:?}", fp.name, label, status, show(c.text.as_bytes()), show(&err));
            if out != want_out.as_bytes() {
                let p = first_diff(&out, want_out.as_bytes());
                fail!(&sig, "{} [{}]: stdout differs from the expected copy at byte {} (got {} bytes, want {}): got …{:?} want …{:?}; input {:?}", fp.name, label, p, out.len(), want_out.len(), show(&out[p.saturating_sub(8)..(p + 16).min(out.len())]), show(&want_out.as_bytes()[p.saturating_sub(8)..(p + 16).min(want_out.len())]), show(c.text.as_bytes()));
            }
            ensure!(err == want_err.as_bytes(), &sig, "{} [{}]: stderr {:?} want {:?}; input {:?}", fp.name, label, show(&err), show(want_err.as_bytes()), show(c.text.as_bytes()));
            st.class_n("process runs compared", 1);
        }
    }
    let chars: Vec<char> = c.text.chars().collect();
    let lines = c.text.split_inclusive('\n').count();
    for (name, on) in [
        ("empty input", c.text.is_empty()),
        ("no final line break", !c.text.is_empty() && !c.text.ends_with('\n')),
        ("has CRLF", c.text.contains("\r\n")),
        ("has empty line", c.text.contains("\n\n") || c.text.starts_with('\n')),
        ("has NUL", chars.contains(&'\0')),
        ("has 4-byte character", chars.iter().any(|c| c.len_utf8() == 4)),
        ("has 3-byte character", chars.iter().any(|c| c.len_utf8() == 3)),
        ("has 2-byte character", chars.iter().any(|c| c.len_utf8() == 2)),
        ("has an encoding-length boundary character", chars.iter().any(|c| matches!(*c as u32, 0x7f | 0x80 | 0x7ff | 0x800 | 0xd7ff | 0xe000 | 0xffff | 0x10000 | 0x10ffff))),
        ("long line (> 64 KiB)", c.text.split('\n').any(|l| l.len() > 65536)),
        ("shorter than 7 characters (copy-7 runs past the end)", chars.len() < 7),
    ] {
        if on {
            st.class(name);
        }
    }
    if chars.len() >= 4 && (lines >= 2 || chars.iter().any(|c| c.len_utf8() >= 3)) {
        let t = c.text.clone();
        st.nontrivial(&c.text, || if t.len() > 200 { json!({"text_prefix": t.chars().take(60).collect::<String>(), "bytes": t.len()}) } else { json!({"text": t}) });
    }
    Ok(())
}

pub fn any_scalar() -> BoxedStrategy<char> {
    prop_oneof![
        6 => (0x20u32..0x7f).prop_map(|c| char::from_u32(c).unwrap()),
        2 => (0u32..0x80).prop_map(|c| char::from_u32(c).unwrap()),
        4 => (0x80u32..0x800).prop_map(|c| char::from_u32(c).unwrap()),
        4 => (0x800u32..0x10000).prop_filter_map("surrogate", char::from_u32),
        4 => (0x10000u32..=0x10FFFF).prop_map(|c| char::from_u32(c).unwrap()),
        3 => prop::sample::select(vec!['\u{0}', '\u{7f}', '\u{80}', '\u{7ff}', '\u{800}', '\u{d7ff}', '\u{e000}', '\u{ffff}', '\u{10000}', '\u{10ffff}', '\u{feff}', '\u{fffd}', '\u{85}', '\u{2028}']),
        1 => Just('\r'),
    ]
    .boxed()
}

fn short_text() -> BoxedStrategy<Case14> {
    let line = prop::collection::vec(any_scalar().prop_map(|c| if c == '\n' { 'x' } else { c }), 0..12).prop_map(|v| v.into_iter().collect::<String>());
    let term = prop_oneof![5 => Just("\n"), 2 => Just("\r\n")];
    (prop::collection::vec((line, term), 0..6), any::<bool>())
        .prop_map(|(lines, cut)| {
            let n = lines.len();
            let mut s = String::new();
            for (i, (l, t)) in lines.into_iter().enumerate() {
                s.push_str(&l);
                if !(cut && i + 1 == n) {
                    s.push_str(t);
                }
            }
            Case14 { text: s }
        })
        .boxed()
}

/// long lines with multi-byte characters straddling power-of-two byte offsets
fn long_text(huge: bool) -> BoxedStrategy<Case14> {
    (
        prop::sample::select(if huge { vec![1usize << 20, 1 << 21] } else { vec![4096usize, 8192, 65536, 131072] }),
        0usize..4,
        prop::sample::select(vec!['é', '한', '😀', '\u{7ff}', '\u{ffff}', '\u{10ffff}']),
        prop::sample::select(vec!['a', '한', 'é']),
        any::<bool>(),
        0usize..3,
    )
        .prop_map(|(boundary, back, ch, fill, newline, extra_lines)| {
            let mut s = String::new();
            for _ in 0..extra_lines {
                s.push_str("pre\n");
            }
            let line_start = s.len();
            // fill up to just before the boundary (relative to the start of the line), then the straddling character
            while s.len() - line_start + fill.len_utf8() <= boundary - back.min(boundary) {
                s.push(fill);
            }
            while s.len() - line_start < boundary - back.min(ch.len_utf8() - 1).min(boundary) {
                s.push('a');
            }
            s.push(ch);
            s.push(ch);
            for _ in 0..100 {
                s.push(fill);
            }
            s.push(ch);
            if newline {
                s.push('\n');
                s.push_str("tail 한\n");
            }
            Case14 { text: s }
        })
        .boxed()
}

pub fn run(ctx: &Ctx, out: &mut Outcome) {
    let t = ctx.tier;
    let bin = ctx.hyeong_bin();
    let scratch = ctx.scratch.clone();
    {
        let (bin, scratch) = (bin.clone(), scratch.clone());
        search::<Case14>(ctx, out, "short-texts", t.pick(320, 6_000), &short_text, &move |c, st| check(c, st, &bin, &scratch));
    }
    {
        let (bin, scratch) = (bin.clone(), scratch.clone());
        search::<Case14>(ctx, out, "long-lines", t.pick(32, 300), &|| long_text(false), &move |c, st| check(c, st, &bin, &scratch));
    }
    // lines beyond 1 MiB / 2 MiB (fixed-count copy only: the loop program would need minutes per configuration)
    search::<Case14>(ctx, out, "huge-lines", t.pick(4, 24), &|| long_text(true), &move |c, st| check(c, st, &bin, &scratch));
}

pub fn replay(ctx: &Ctx, v: &Value) -> Result<CheckResult, String> {
    let bin = ctx.hyeong_bin();
    let scratch = ctx.scratch.clone();
    replay_case::<Case14>(v, &move |c, st| check(c, st, &bin, &scratch))
}

pub fn gates(out: &Outcome, tier: Tier) -> Vec<String> {
    let mut v = Vec::new();
    let m = tier.pick(1, 10);
    for (class, min) in [
        ("process runs compared", 10_000u64),
        ("no final line break", 40),
        ("has CRLF", 40),
        ("has empty line", 10),
        ("has NUL", 10),
        ("has 4-byte character", 100),
        ("has 3-byte character", 100),
        ("has 2-byte character", 100),
        ("has an encoding-length boundary character", 60),
        ("long line (> 64 KiB)", 8),
        ("shorter than 7 characters (copy-7 runs past the end)", 20),
    ] {
        if out.stats.get(class) < min * m {
            v.push(format!("class '{}' has {} cases, need >= {}", class, out.stats.get(class), min * m));
        }
    }
    v
}
