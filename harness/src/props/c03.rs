//! C03 — a compiled program behaves exactly like the interpreted program.

use super::c01::describe_end;
use crate::engine::*;
use crate::gen::*;
use crate::proc;
use crate::refexec::*;
use crate::refparse::RCmd;
use crate::{ensure, fail};
use proptest::prelude::*;
use serde_json::{json, Value};
use std::path::Path;
use std::time::Duration;

pub const RULE: &str = "cases = (program, stdin, level 0..2): programs of <= 30 commands built as input-free prefix + `흑` selecting stack 0 + \
residual part (so that level 2 pre-executes a non-empty prefix and leaves a residual program), with label pairs spanning the boundary, ♡, fractions / \
negatives / NaN left on stacks, printing of characters that are special in Rust string/format syntax, plus general programs; the source emitted by \
compile::build_source (obtained exactly as src/app/build.rs does) must be accepted by rustc against the number-only build of the current tree, and the \
executable must produce the same stdout, stderr and way of ending as `hyeong run -O0` (unencodable output: status 101 vs diagnosed status 1, outputs \
before it prefix-or-equal). Only programs the reference model finishes within its budget are run. \
non-trivial = source compiled AND the run produced >= 1 output byte or a requested exit AND (level < 2, or 0 < residual < commands, or >= 3 area-carrying commands); \
distinct = distinct (program, stdin, level)";

#[derive(Clone, Debug)]
pub struct Case3 {
    pub prog: ProgCase,
    pub level: u8,
}

impl Case for Case3 {
    fn to_json(&self) -> Value {
        let mut v = self.prog.to_json();
        v["level"] = json!(self.level);
        v
    }
    fn from_json(v: &Value) -> Option<Self> {
        Some(Case3 { prog: ProgCase::from_json(v)?, level: v.get("level")?.as_u64()? as u8 })
    }
}

fn lossy(b: &[u8]) -> String {
    let s = String::from_utf8_lossy(b);
    if s.chars().count() > 400 {
        s.chars().take(400).collect::<String>() + "…"
    } else {
        s.into_owned()
    }
}

pub struct Paths<'a> {
    pub bin: &'a Path,
    pub hv: &'a Path,
    pub rlib: &'a Path,
    pub scratch: &'a Path,
}

/// emit + compile; Ok(Some(exe)) / Ok(None) when optimize itself failed (no source emitted)
pub fn emit_and_compile(p: &Paths, dir: &Path, text: &str, level: u8, st: &mut Stats) -> Result<Option<(std::path::PathBuf, usize, usize, bool)>, Failure> {
    let file = dir.join("p.hyeong");
    std::fs::write(&file, text).map_err(|e| Failure::new("harness:io", e.to_string()))?;
    let src = dir.join(format!("main{}.rs", level));
    let mut o = proc::RunOpts::new(b"");
    o.cpu_secs = Some(20);
    o.wall = Duration::from_secs(120);
    let r = proc::run(p.hv, &["child-emit", file.to_str().unwrap(), &level.to_string(), src.to_str().unwrap()], &o).map_err(|e| Failure::new("harness:spawn", e.to_string()))?;
    match r.status {
        proc::Status::Code(0) => {}
        proc::Status::Code(c) if c == super::child::EXIT_ERROR => return Ok(None),
        proc::Status::Timeout => {
            st.trouble("wall-clock watchdog fired while emitting source");
            return Err(Failure::new("harness:timeout", "emit timed out"));
        }
        other => {
            return Err(Failure::new(format!("c03:O{}-emit", level), format!("emitting the source at level {} ended with {:?}: stdout {:?} stderr {:?}", level, other, lossy(&r.stdout), lossy(&r.stderr))));
        }
    }
    let info = r.out_str();
    let nums: Vec<usize> = info.split_whitespace().filter_map(|x| x.parse().ok()).collect();
    if nums.len() != 3 {
        return Err(Failure::new(format!("c03:O{}-emit", level), format!("emitting the source wrote unexpected text to stdout: {:?}", info)));
    }
    let exe = dir.join(format!("exe{}", level));
    let mut o = proc::RunOpts::new(b"");
    o.wall = Duration::from_secs(300);
    let extern_arg = format!("hyeong={}", p.rlib.display());
    let rc = proc::run(
        Path::new("rustc"),
        &["--edition", "2018", "-C", "opt-level=0", "-C", "debuginfo=0", "-C", "codegen-units=1", "--cap-lints", "allow", "--extern", &extern_arg, "-o", exe.to_str().unwrap(), src.to_str().unwrap()],
        &o,
    )
    .map_err(|e| Failure::new("harness:spawn", format!("rustc: {}", e)))?;
    match rc.status {
        proc::Status::Code(0) => {}
        proc::Status::Timeout => {
            st.trouble("wall-clock watchdog fired on rustc");
            return Err(Failure::new("harness:timeout", "rustc timed out"));
        }
        _ => {
            let errs = rc.err_str();
            let first: String = errs.lines().filter(|l| l.starts_with("error")).take(3).collect::<Vec<_>>().join(" | ");
            return Err(Failure::new(format!("c03:O{}-rustc", level), format!("rustc rejects the source emitted at level {}: {} (full stderr: {:?})", level, first, lossy(&rc.stderr))));
        }
    }
    Ok(Some((exe, nums[0], nums[1], nums[2] == 1)))
}

pub fn check(c: &Case3, st: &mut Stats, p: &Paths, budget: usize) -> CheckResult {
    let text = c.prog.text();
    let cmds = c.prog.mcmds();
    let m = run_model(&cmds, &c.prog.stdin, budget, 7, false);
    if m.flags.stack_ops > 4_000_000 {
        st.exclude("more than 4 million stack operations (too slow to judge with a fixed CPU limit)");
        return Ok(());
    }
    if !matches!(m.end, End::Normal | End::Stop(Stop::Exit(_)) | End::Stop(Stop::Encoding(_))) {
        st.exclude(describe_end(&m.end));
        return Ok(());
    }
    let dir = proc::scratch_dir(p.scratch, "c03");
    let result = (|| -> CheckResult {
        let level = c.level;
        let compiled = match emit_and_compile(p, &dir, &text, level, st) {
            Ok(x) => x,
            Err(f) if f.sig.starts_with("harness:timeout") => return Ok(()),
            Err(f) => return Err(f),
        };
        let (exe, n, residual, pending) = match compiled {
            Some(x) => x,
            None => {
                st.class("optimize failed: no source emitted (left to C02)");
                return Ok(());
            }
        };
        st.class(&format!("compiled at level {}", level));
        // yardstick: the interpreter, unoptimised
        let cli = proc::run_hyeong(p.bin, p.scratch, &text, 0, c.prog.stdin.as_bytes(), |o| {
            o.cpu_secs = Some(10);
            o.wall = Duration::from_secs(90);
        })
        .map_err(|e| Failure::new("harness:spawn", e.to_string()))?;
        if cli.raw.status == proc::Status::Timeout {
            st.trouble("wall-clock watchdog fired on `hyeong run -O0`");
            return Ok(());
        }
        if cli.raw.wall > Duration::from_millis(2000) {
            st.exclude("interpreter slower than 2 s on this case (no fixed CPU limit can judge the executable)");
            return Ok(());
        }
        let want0 = match m.end {
            End::Normal | End::Stop(Stop::Exit(0)) => 0,
            _ => 1,
        };
        if cli.raw.status != proc::Status::Code(want0) || cli.out != m.out.as_bytes() {
            st.exclude("level 0 disagrees with the model (reported by C01)");
            return Ok(());
        }
        let mut o = proc::RunOpts::new(c.prog.stdin.as_bytes());
        o.cpu_secs = Some(10);
        o.wall = Duration::from_secs(90);
        o.out_cap = m.out.len() + (256 << 10);
        let r = proc::run(&exe, &[], &o).map_err(|e| Failure::new("harness:spawn", e.to_string()))?;
        let tag = |s: &str| format!("c03:O{}-{}", level, s);
        match (&m.end, &r.status) {
            (_, proc::Status::Timeout) => {
                st.trouble("wall-clock watchdog fired on a compiled program");
                return Ok(());
            }
            (End::Stop(Stop::Encoding(v)), status) => {
                ensure!(*status == proc::Status::Code(101), &tag("status"), "the interpreter stops on the unencodable value {}, the executable compiled at level {} ended with {:?}", v, level, status);
                ensure!(cli.out.starts_with(&r.stdout), &tag("stdout"), "executable wrote {:?} before the abnormal stop, the interpreter {:?}", lossy(&r.stdout), lossy(&cli.out));
                let n = m.err.len().min(r.stderr.len());
                let prog_part = &r.stderr[..n];
                ensure!(m.err.as_bytes().starts_with(prog_part) || r.stderr.starts_with(m.err.as_bytes()), &tag("stderr"), "executable stderr {:?}, interpreter's program-written stderr {:?}", lossy(&r.stderr), m.err);
                st.class("unencodable output compared");
            }
            (_, status) => {
                ensure!(*status == cli.raw.status, &tag("status"), "executable compiled at level {} ended with {:?}, the interpreter with {:?}; executable stderr {:?}", level, status, cli.raw.status, lossy(&r.stderr));
                ensure!(r.stdout == cli.out, &tag("stdout"), "executable compiled at level {} wrote {:?}, the interpreter {:?}", level, lossy(&r.stdout), lossy(&cli.out));
                ensure!(r.stderr == cli.raw.stderr, &tag("stderr"), "executable compiled at level {} wrote {:?} to stderr, the interpreter {:?}", level, lossy(&r.stderr), lossy(&cli.raw.stderr));
            }
        }
        // classes
        let areas = c.prog.cmds.iter().filter(|x| x.has_area()).count();
        st.class(match areas {
            0 => "area-carrying commands: 0",
            1..=2 => "area-carrying commands: 1-2",
            3..=7 => "area-carrying commands: 3-7",
            _ => "area-carrying commands: 8+",
        });
        if level == 2 {
            if residual == 0 {
                st.class("level 2: fully pre-executed");
            } else if residual < n {
                st.class("level 2: partial prefix");
                let last_prefix = &c.prog.cmds[n - residual - 1];
                st.class(if last_prefix.has_area() { "level 2: prefix ends in an area-carrying command" } else { "level 2: prefix ends area-less" });
                if pending {
                    st.class("level 2: pending ♡ target at the boundary");
                }
                if m.flags.labels_registered > 0 {
                    st.class("level 2: labels registered (some before the boundary)");
                }
                if m.flags.jumps > 0 {
                    st.class("level 2 partial: run takes jumps");
                }
                if m.flags.heart_returns > 0 {
                    st.class("level 2 partial: run takes a ♡ return");
                }
                if m.flags.fraction_seen || m.flags.nan_seen || m.flags.negative_seen {
                    st.class("level 2 partial: fraction/negative/NaN values in play");
                }
            } else {
                st.class("level 2: nothing pre-executed");
            }
        }
        let has_effect = !m.out.is_empty() || !m.err.is_empty() || matches!(m.end, End::Stop(Stop::Exit(_)));
        if has_effect && (level < 2 || (residual > 0 && residual < n) || areas >= 3) {
            st.nontrivial(&(&c.prog, level), || json!({"program": text, "stdin": c.prog.stdin, "level": level, "end": describe_end(&m.end), "stdout": m.out.chars().take(60).collect::<String>(), "residual": residual, "commands": n}));
        }
        Ok(())
    })();
    let _ = std::fs::remove_dir_all(&dir);
    result
}

/// print characters that are special in Rust string / format syntax (and ordinary ones)
pub fn idiom_print_special() -> BoxedStrategy<Vec<RCmd>> {
    // (h, d) with h*d in { '{' 123, '}' 125, '"' 34, '\\' 92, '\n' 10, '%' 37, '\'' 39, '\r' 13, 'A' 65, 0, '$' 36 }
    prop::sample::select(vec![(3usize, 41usize), (5, 25), (2, 17), (4, 23), (2, 5), (1, 37), (3, 13), (1, 13), (5, 13), (1, 0), (6, 6), (1, 123), (1, 125)])
        .prop_flat_map(|(h, d)| (Just((h, d)), 1usize..=2))
        .prop_map(|((h, d), target)| vec![RCmd::new(0, h, d), RCmd::new(1, 1, target)])
        .boxed()
}

/// prefix: one command registers two different labels (visited twice with different outcomes) behind several plain commands;
/// residual: input-driven conditional jumps to both labels (each round consumes input, so the run ends at end of input)
pub fn scenario_two_labels(extra_plain: usize, c: usize) -> Vec<RCmd> {
    let ps = |a: &str| crate::refparse::parse_shape(a).unwrap();
    let big = c + 100;
    let (bh, bd) = if big % 2 == 0 { (2, big / 2) } else { (1, big) };
    let mut v = Vec::new();
    for _ in 0..extra_plain {
        v.push(RCmd::new(0, 1, 0));
        v.push(RCmd::new(1, 1, 4));
    }
    // pushed bottom -> top: b3 = 5, a3 = 1, b2 = 7, a2 = 1, b1 = c + 100, a1 = 1
    for (h, d) in [(1usize, 5usize), (1, 1), (1, 7), (1, 1), (bh, bd), (1, 1)] {
        v.push(RCmd::new(0, h, d));
    }
    v.push(RCmd::with_area(1, 1, c, ps("♥?💖"))); // W: first visit registers 💖, second visit ♥
    v.push(RCmd::with_area(1, 1, c, ps("💖?"))); // U: jumps back to W once
    v.push(RCmd::new(5, 1, 0)); // boundary: select stack 0
    v.push(RCmd::new(1, 1, 1));
    v.push(RCmd::with_area(1, 1, c, ps("♥?")));
    v.push(RCmd::new(1, 1, 1));
    v.push(RCmd::with_area(1, 1, c, ps("💖?")));
    v.push(RCmd::new(1, 1, 1));
    v
}

/// prefix: a jump is taken (so a ♡ target is pending) behind plain commands; residual: ♡ taken while the next input character is small
pub fn scenario_heart_return(extra_plain: usize, c: usize) -> Vec<RCmd> {
    let ps = |a: &str| crate::refparse::parse_shape(a).unwrap();
    let mut v = Vec::new();
    for _ in 0..extra_plain {
        v.push(RCmd::new(0, 1, 0));
    }
    v.push(RCmd::new(0, 1, 0));
    v.push(RCmd::new(0, 1, 0));
    v.push(RCmd::with_area(0, 2, 4, ps("♥"))); // X: push 8, register (8,♥)
    v.push(RCmd::with_area(1, 2, 4, ps("♥?"))); // Y: jumps to X once (value 0 < 8), later falls through
    v.push(RCmd::new(5, 1, 0)); // boundary
    v.push(RCmd::new(1, 1, 1)); // print a character
    v.push(RCmd::with_area(1, 1, c, ps("♡?"))); // ♡ back to Y while the next character is below c
    v.push(RCmd::new(1, 1, 1));
    v
}

fn strategy(max_len: usize) -> BoxedStrategy<Case3> {
    let half = (max_len / 2).max(2);
    let loop_head = prop_oneof![
        3 => Just(Vec::new()),
        2 => (prop::sample::select(vec![2usize, 3, 5, 101, 120]), any::<bool>(), prop::sample::select(vec!['♥', '💖'])).prop_map(|(n, p, h)| idiom_loop(n, p, h)),
    ];
    // after the boundary: a conditional ♡ (taken while the next input character is below 100), fed by input
    let heart_return = prop_oneof![
        3 => Just(Vec::new()),
        2 => (prop::sample::select(vec!["♡?", "?♡", "♡!", "♡?💖", "!♡"]), 50usize..130).prop_map(|(a, cnt)| vec![RCmd::with_area(1, 1, cnt, crate::refparse::parse_shape(a).unwrap())]),
    ];
    let split = (
        (loop_head, program_with_jumps(&Profile { many_stacks: true, ..Profile::input_free(half) })).prop_map(|(mut l, r)| {
            l.extend(r);
            l
        }),
        prop::collection::vec(idiom_print_special(), 0..3),
        (heart_return, program_with_jumps(&Profile { many_stacks: true, big_counts: false, ..Profile::general(half) })).prop_map(|(mut l, r)| {
            l.extend(r);
            l
        }),
        prop::collection::vec((any::<u16>(), any::<u16>(), 0u8..6, 1usize..=3, 0usize..=4, prop::sample::select(vec!['♥', '💖', '💚']), 0u8..6), 0..=2),
    )
        .prop_map(|(mut a, specials, b, pairs)| {
            for s in specials {
                let pos = a.len() / 2;
                let tail = a.split_off(pos);
                a.extend(s);
                a.extend(tail);
            }
            let boundary = a.len();
            a.push(RCmd::new(5, 1, 0)); // select stack 0: the level-2 prefix ends at the first pop from it
            a.extend(b);
            // label pairs across the boundary: registered in the prefix, used after it (and ♡ back)
            for (x, y, k, h, d, heart, shape) in pairs {
                let p1 = ((x as usize) * (boundary + 1)) >> 16;
                let hs = heart.to_string();
                a.insert(p1, RCmd::with_area(k, h, if k == 5 && d < 3 { 3 } else { d }, crate::refparse::parse_shape(&hs).unwrap()));
                let after = a.len() - (boundary + 1);
                let p2 = boundary + 2 + (((y as usize) * (after.max(1))) >> 16);
                let area2 = ["H", "?H", "H?♡", "!H", "H!♡", "♡?H"][shape as usize % 6].replace('H', &hs);
                a.insert(p2.min(a.len()), RCmd::with_area(0, h, d, crate::refparse::parse_shape(&area2).unwrap()));
            }
            a
        });
    let general = program_with_jumps(&Profile { many_stacks: true, big_counts: false, ..Profile::general(max_len) });
    let tail = program_with_jumps(&Profile { many_stacks: true, big_counts: false, idioms: false, ..Profile::general(4) });
    let scenario = (prop_oneof![
        (0usize..3, 60usize..130).prop_map(|(e, c)| scenario_two_labels(e, c)),
        (0usize..4, 60usize..130).prop_map(|(e, c)| scenario_heart_return(e, c)),
    ], tail, any::<bool>())
        .prop_map(|(mut sc, t, with_tail)| {
            if with_tail {
                sc.extend(t);
            }
            sc
        });
    (prop_oneof![6 => split.boxed(), 4 => general.boxed(), 4 => scenario.boxed()], stdin_text(), prop_oneof![2 => Just(0u8), 2 => Just(1u8), 5 => Just(2u8)])
        .prop_map(|(cmds, stdin, level)| Case3 { prog: ProgCase { cmds, stdin }, level })
        .boxed()
}

pub fn run(ctx: &Ctx, out: &mut Outcome) {
    let t = ctx.tier;
    let bin = ctx.hyeong_bin();
    let rlib = ctx.rlib();
    let hv = std::env::current_exe().unwrap_or_else(|_| ctx.verif.join("target/hv/release/hv"));
    let scratch = ctx.scratch.clone();
    let budget = t.pick(6000, 20000);
    search::<Case3>(ctx, out, "compile-and-run", t.pick(2200, 40_000), &|| strategy(30), &move |c, st| {
        let p = Paths { bin: &bin, hv: &hv, rlib: &rlib, scratch: &scratch };
        check(c, st, &p, budget)
    });
}

pub fn replay(ctx: &Ctx, v: &Value) -> Result<CheckResult, String> {
    let bin = ctx.hyeong_bin();
    let rlib = ctx.rlib();
    let hv = std::env::current_exe().unwrap_or_else(|_| ctx.verif.join("target/hv/release/hv"));
    let scratch = ctx.scratch.clone();
    replay_case::<Case3>(v, &move |c, st| {
        let p = Paths { bin: &bin, hv: &hv, rlib: &rlib, scratch: &scratch };
        check(c, st, &p, 10000)
    })
}

pub fn gates(out: &Outcome, tier: Tier) -> Vec<String> {
    let mut v = Vec::new();
    let m = tier.pick(1, 10);
    for (class, min) in [
        ("compiled at level 0", 80u64),
        ("compiled at level 1", 80),
        ("compiled at level 2", 250),
        ("level 2: partial prefix", 120),
        ("level 2: prefix ends in an area-carrying command", 8),
        ("level 2: prefix ends area-less", 60),
        ("level 2: pending ♡ target at the boundary", 4),
        ("level 2 partial: run takes jumps", 40),
        ("level 2 partial: run takes a ♡ return", 6),
        ("level 2 partial: fraction/negative/NaN values in play", 60),
        ("area-carrying commands: 3-7", 100),
        ("area-carrying commands: 8+", 20),
    ] {
        if out.stats.get(class) < min * m {
            v.push(format!("class '{}' has {} cases, need >= {}", class, out.stats.get(class), min * m));
        }
    }
    v
}
