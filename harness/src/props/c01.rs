//! C01 — the interpreter executes every program according to the language definition.

use crate::engine::*;
use crate::gen::*;
use crate::proc;
use crate::refexec::*;
use crate::refparse::RArea;
use crate::{ensure, fail};
use hyeong::core::code::Code;
use hyeong::core::state::{State, UnOptState};
use hyeong::core::{execute, parse};
use hyeong::util::error::Error;
use hyeong::util::io::ReadLine;
use proptest::prelude::*;
use serde_json::{json, Value};
use std::collections::VecDeque;
use std::time::Duration;

pub const RULE: &str = "cases = (program, stdin text): programs are random command lists (6 kinds, syllable counts 1..3000, dot counts \
0..3000, grammar-shaped areas over a small heart set so that labels collide) with spliced idioms (counting loops with bounds around the \
100-jump budget, read-k-characters, print as character/number, exit through stack 1/2, fraction compare); stdin = generated UTF-8 text \
(empty, unterminated last line, CRLF, empty lines, astral, NUL). Each case is executed step by step on the library interpreter \
(execute_one over UnOptState with a line-preserving reader) and on the reference interpreter; after every step next location, selected stack, \
all non-empty stacks and all output so far are compared; the way the run ends is compared on `hyeong run -O0`. \
non-trivial = >= 6 executed steps and (a taken jump, or a ?/! decided against a count != 0, or a fraction/NaN on a stack, or input read, or \
a requested exit); distinct = distinct (program, stdin)";

pub struct LineReader(pub VecDeque<String>);

impl ReadLine for LineReader {
    fn read_line_(&mut self) -> Result<String, Error> {
        Ok(self.0.pop_front().unwrap_or_default())
    }
}

#[derive(Clone, Debug)]
pub struct Case1(pub ProgCase);

impl Case for Case1 {
    fn to_json(&self) -> Value {
        self.0.to_json()
    }
    fn from_json(v: &Value) -> Option<Self> {
        ProgCase::from_json(v).map(Case1)
    }
}

pub struct Cfg {
    pub budget: usize,
    pub size_cap9: usize,
    pub cli: bool,
}

/// commands of the model taken from the implementation's own parse (so that C01 judges the interpreter, not the parser)
pub fn model_cmds(codes: &[hyeong::core::code::UnOptCode]) -> Vec<MCmd> {
    codes.iter().map(|c| MCmd { kind: c.get_type(), h: c.get_hangul_count(), d: c.get_dot_count(), area: RArea::from_impl(c.get_area()) }).collect()
}

fn impl_snapshot(state: &mut UnOptState, only: Option<&[usize]>) -> Vec<(usize, Vec<String>)> {
    let mut idx = state.get_all_stack_index();
    idx.sort_unstable();
    let mut v = Vec::new();
    for i in idx {
        if let Some(only) = only {
            if !only.contains(&i) {
                continue;
            }
        }
        let s = state.get_stack(i);
        if !s.is_empty() {
            v.push((i, s.iter().map(|x| x.to_string()).collect()));
        }
    }
    v
}

fn impl_lengths(state: &mut UnOptState) -> Vec<(usize, usize)> {
    let mut idx = state.get_all_stack_index();
    idx.sort_unstable();
    idx.into_iter().map(|i| (i, state.get_stack(i).len())).filter(|(_, n)| *n > 0).collect()
}

pub fn describe_end(e: &End) -> &'static str {
    match e {
        End::Normal => "end: normal",
        End::Budget => "end: step budget exhausted",
        End::Stop(Stop::Exit(0)) => "end: exit 0",
        End::Stop(Stop::Exit(_)) => "end: exit 1",
        End::Stop(Stop::Encoding(_)) => "end: encoding error",
        End::Stop(Stop::Unspecified) => "end: cut at output >= 2^32 (unspecified)",
        End::Stop(Stop::TooBig) => "end: cut at size cap",
        End::Stop(Stop::InputError) => "end: input is not UTF-8",
    }
}

pub fn check(c: &Case1, st: &mut Stats, cfg: &Cfg, bin: &std::path::Path, scratch: &std::path::Path) -> CheckResult {
    let text = c.0.text();
    let codes = guarded("parse", || parse::parse(text.clone()))?;
    let cmds = model_cmds(&codes);
    let mut model = Model::new(cmds.clone(), &c.0.stdin);
    model.size_cap9 = cfg.size_cap9;

    let mut state0 = UnOptState::new();
    for code in &codes {
        state0.push_code(code.clone());
    }
    let mut state_slot = Some(state0);
    let mut reader = LineReader(split_lines(&c.0.stdin));
    let mut out: Vec<u8> = Vec::new();
    let mut err: Vec<u8> = Vec::new();
    let mut loc = 0usize;
    let mut steps = 0usize;
    let end;
    loop {
        if loc >= cmds.len() {
            end = End::Normal;
            break;
        }
        if steps >= cfg.budget {
            end = End::Budget;
            break;
        }
        steps += 1;
        let r = model.step(loc);
        let shown = || format!("step {} (command {} = {})", steps, loc, crate::refparse::cmd_text(&c.0.cmds.get(loc).cloned().unwrap_or_else(|| crate::refparse::RCmd::new(0, 1, 0))));
        match r {
            Err(Stop::Exit(_)) | Err(Stop::Unspecified) | Err(Stop::TooBig) | Err(Stop::InputError) => {
                // not executed in-process: the definition ends the process here / the case is cut here
                end = End::Stop(r.unwrap_err());
                break;
            }
            Err(Stop::Encoding(code)) => {
                let state = state_slot.take().unwrap();
                let res = guarded("execute_one", || execute::execute_one(&mut reader, &mut out, &mut err, state, loc))?;
                ensure!(res.is_err(), "c01:encoding-error", "{}: writing the non-scalar value {} must be diagnosed, the interpreter went on", shown(), code);
                ensure!(out == model.out.as_bytes(), "c01:stdout", "{}: stdout before the encoding error {:?} want {:?}", shown(), String::from_utf8_lossy(&out), model.out);
                ensure!(err == model.err.as_bytes(), "c01:stderr", "{}: stderr before the encoding error {:?} want {:?}", shown(), String::from_utf8_lossy(&err), model.err);
                end = End::Stop(Stop::Encoding(code));
                break;
            }
            Ok(next) => {
                let state = state_slot.take().unwrap();
                let res = guarded("execute_one", || execute::execute_one(&mut reader, &mut out, &mut err, state, loc))?;
                let (mut state, got_next) = match res {
                    Ok(x) => x,
                    Err(e) => fail!("c01:unexpected-error", "{}: interpreter reported `{}` where the definition continues", shown(), e),
                };
                ensure!(got_next == next, "c01:next-location", "{}: next command {} want {}", shown(), got_next, next);
                ensure!(state.current_stack() == model.cur, "c01:selected-stack", "{}: selected stack {} want {}", shown(), state.current_stack(), model.cur);
                ensure!(out == model.out.as_bytes(), "c01:stdout", "{}: stdout so far {:?} want {:?}", shown(), String::from_utf8_lossy(&out), model.out);
                ensure!(err == model.err.as_bytes(), "c01:stderr", "{}: stderr so far {:?} want {:?}", shown(), String::from_utf8_lossy(&err), model.err);
                // stacks
                let full = model.total_values() <= 32 || steps % 64 == 0;
                if full {
                    let got = impl_snapshot(&mut state, None);
                    let want = model.snapshot();
                    ensure!(got == want, "c01:stacks", "{}: stacks {:?} want {:?}", shown(), got, want);
                } else {
                    let got_len = impl_lengths(&mut state);
                    let want_len: Vec<(usize, usize)> = model.stacks.iter().filter(|(_, v)| !v.is_empty()).map(|(k, v)| (*k, v.len())).collect();
                    ensure!(got_len == want_len, "c01:stacks", "{}: stack sizes {:?} want {:?}", shown(), got_len, want_len);
                    // top of the touched stacks
                    let mut touched = model.touched.clone();
                    touched.sort_unstable();
                    touched.dedup();
                    for t in touched {
                        let want: Vec<String> = model.stacks.get(&t).map(|v| v.iter().rev().take(8).map(|x| x.text()).collect()).unwrap_or_default();
                        let got: Vec<String> = state.get_stack(t).iter().rev().take(8).map(|x| x.to_string()).collect();
                        ensure!(got == want, "c01:stacks", "{}: top of stack {} is {:?} want {:?}", shown(), t, got, want);
                    }
                }
                loc = next;
                state_slot = Some(state);
            }
        }
    }
    if end == End::Normal || end == End::Budget {
        let got = impl_snapshot(state_slot.as_mut().unwrap(), None);
        let want = model.snapshot();
        ensure!(got == want, "c01:stacks", "final stacks {:?} want {:?}", got, want);
    }
    // classes
    let f = &model.flags;
    st.class(describe_end(&end));
    let flag_classes: [(&str, bool); 12] = [
        ("with taken jump", f.jumps > 0),
        ("with ♡ return", f.heart_returns > 0),
        ("with input read", f.input_reads > 0),
        ("with read at end of input", f.eof_reads > 0),
        ("with ? decided against count != 0", f.q_decisions_nonzero_count > 0),
        ("with ? taking the left branch", f.q_taken_left > 0),
        ("with ! taking the left branch", f.b_taken_left > 0),
        ("with fraction compared in area", f.fraction_decisions > 0),
        ("with NaN deciding a branch", f.nan_decisions > 0),
        ("with multi-operand 흣/흡", f.multi_operand_neg_recip > 0),
        ("with number printed as text", f.number_text_writes > 0),
        ("with program push onto stack 0", f.stack0_program_push > 0),
    ];
    for (name, on) in flag_classes {
        if on {
            st.class(name);
        }
    }
    if f.max_size9 >= 3 {
        st.class("with value > 10^18");
    }
    let exit = matches!(end, End::Stop(Stop::Exit(_)));
    let nontrivial = steps >= 6 && (f.jumps > 0 || f.q_decisions_nonzero_count + f.b_decisions_nonzero_count > 0 || f.fraction_seen || f.nan_seen || f.input_reads > 0 || exit);
    if nontrivial {
        st.nontrivial(&c.0, || json!({"program": text, "stdin": c.0.stdin, "steps": steps, "end": describe_end(&end), "stdout": model.out.chars().take(60).collect::<String>()}));
    }

    // the way the run ends, on the real binary
    if cfg.cli && model.flags.stack_ops > 4_000_000 {
        st.exclude("more than 4 million stack operations: not run on the binary (fixed CPU limit)");
    } else if cfg.cli && matches!(end, End::Normal | End::Stop(Stop::Exit(_)) | End::Stop(Stop::Encoding(_))) {
        let r = match proc::run_hyeong(bin, scratch, &text, 0, c.0.stdin.as_bytes(), |o| {
            o.cpu_secs = Some(20);
            o.wall = Duration::from_secs(120);
        }) {
            Ok(r) => r,
            Err(e) => {
                st.trouble(format!("cannot spawn hyeong: {}", e));
                return Ok(());
            }
        };
        st.class("cli runs");
        match &r.raw.status {
            proc::Status::Timeout => {
                st.trouble("wall-clock watchdog fired on `hyeong run -O0`");
                return Ok(());
            }
            proc::Status::Signal(sig) => fail!("c01:cli-abnormal", "`hyeong run -O0` was killed by signal {} where the definition ends with {}", sig, describe_end(&end)),
            proc::Status::Code(code) => {
                let want_code = match end {
                    End::Normal | End::Stop(Stop::Exit(0)) => 0,
                    _ => 1,
                };
                ensure!(*code == want_code, "c01:cli-status", "`hyeong run -O0` ended with status {} want {} ({}); stderr {:?}", code, want_code, describe_end(&end), r.raw.err_str());
                ensure!(r.out == model.out.as_bytes(), "c01:cli-stdout", "`hyeong run -O0` wrote {:?} want {:?}", String::from_utf8_lossy(&r.out), model.out);
                if let End::Stop(Stop::Encoding(_)) = end {
                    ensure!(r.raw.stderr.starts_with(model.err.as_bytes()), "c01:cli-stderr", "`hyeong run -O0` stderr {:?} does not start with the program's {:?}", r.raw.err_str(), model.err);
                    let rest = &r.raw.stderr[model.err.len()..];
                    // wording is not part of the property: a diagnostic is any text after what the program itself wrote
                    ensure!(!rest.is_empty(), "c01:cli-diagnostic", "encoding error without a diagnostic on stderr: {:?}", r.raw.err_str());
                } else {
                    ensure!(r.raw.stderr == model.err.as_bytes(), "c01:cli-stderr", "`hyeong run -O0` stderr {:?} want {:?}", r.raw.err_str(), model.err);
                }
            }
        }
    }
    Ok(())
}

pub fn run(ctx: &Ctx, out: &mut Outcome) {
    let t = ctx.tier;
    let bin = ctx.hyeong_bin();
    let scratch = ctx.scratch.clone();
    let cfg = Cfg { budget: t.pick(2000, 8000), size_cap9: 7, cli: true };
    let max_len = t.pick(40, 120);
    {
        let (bin, scratch) = (bin.clone(), scratch.clone());
        search::<Case1>(ctx, out, "general", t.pick(12_000, 80_000), &move || prog_case(&Profile::general(max_len)).prop_map(Case1).boxed(), &move |c, st| check(c, st, &cfg, &bin, &scratch));
    }
    // short programs: dense coverage of small command interactions
    let cfg2 = Cfg { budget: 500, size_cap9: 7, cli: false };
    {
        let (bin, scratch) = (bin.clone(), scratch.clone());
        search::<Case1>(ctx, out, "short", t.pick(40_000, 600_000), &|| prog_case(&Profile { idioms: false, ..Profile::general(8) }).prop_map(Case1).boxed(), &move |c, st| check(c, st, &cfg2, &bin, &scratch));
    }
    // low volume: values of unbounded size (no size cap)
    let cfg3 = Cfg { budget: 60, size_cap9: 40, cli: false };
    search::<Case1>(ctx, out, "big-values", t.pick(600, 6_000), &|| big_value_case().prop_map(Case1).boxed(), &move |c, st| check(c, st, &cfg3, &bin, &scratch));
}

/// short programs whose values become large: products of big 형 constants, repeated squaring
pub fn big_value_case() -> BoxedStrategy<ProgCase> {
    use crate::refparse::RCmd;
    // factors: arbitrary, or powers of two (their products are multiples of 2^32 / 2^64: values whose low limbs are zero)
    let factor = prop_oneof![
        3 => (100usize..3000, 100usize..3000),
        1 => prop::sample::select(vec![(256usize, 256usize), (512, 128), (1024, 64), (2048, 32), (1024, 1024), (2048, 2048), (64, 64), (4096, 16)]),
    ];
    (prop::collection::vec(factor, 2..5), 0usize..4, any::<bool>(), any::<bool>())
        .prop_map(|(consts, squarings, recip, print)| {
            let mut v = Vec::new();
            for (h, d) in &consts {
                v.push(RCmd::new(0, *h, *d));
            }
            v.push(RCmd::new(2, consts.len(), 3)); // product
            for _ in 0..squarings {
                v.push(RCmd::new(5, 1, 3)); // dup
                v.push(RCmd::new(2, 2, 3)); // square
            }
            if recip {
                v.push(RCmd::new(0, 7, 1));
                v.push(RCmd::new(4, 2, 3)); // reciprocals and their product
                v.push(RCmd::new(1, 2, 3));
            }
            if print {
                v.push(RCmd::new(3, 1, 1)); // print -x as number
            }
            ProgCase { cmds: v, stdin: String::new() }
        })
        .boxed()
}

pub fn replay(ctx: &Ctx, v: &Value) -> Result<CheckResult, String> {
    let bin = ctx.hyeong_bin();
    let scratch = ctx.scratch.clone();
    let cfg = Cfg { budget: 30000, size_cap9: 40, cli: true };
    replay_case::<Case1>(v, &move |c, st| check(c, st, &cfg, &bin, &scratch))
}

pub fn gates(out: &Outcome, tier: Tier) -> Vec<String> {
    let mut v = Vec::new();
    let m = tier.pick(1, 8);
    for (class, min) in [
        ("with taken jump", 3000u64),
        ("with ♡ return", 300),
        ("with input read", 3000),
        ("with read at end of input", 1000),
        ("with ? decided against count != 0", 2000),
        ("with ? taking the left branch", 1000),
        ("with ! taking the left branch", 1000),
        ("with fraction compared in area", 300),
        ("with NaN deciding a branch", 2000),
        ("with multi-operand 흣/흡", 2000),
        ("with number printed as text", 2000),
        ("with program push onto stack 0", 1000),
        ("end: exit 0", 300),
        ("end: exit 1", 300),
        ("end: encoding error", 30),
        ("end: step budget exhausted", 100),
        ("end: normal", 10000),
        ("cli runs", 5000),
        ("with value > 10^18", 300),
    ] {
        if out.stats.get(class) < min * m {
            v.push(format!("class '{}' has {} cases, need >= {}", class, out.stats.get(class), min * m));
        }
    }
    v
}
