//! C09 — numbers survive being written as text and read back.

use crate::engine::*;
use crate::numgen::*;
use crate::refnum::{RefInt, RefRat};
use crate::{ensure, fail};
use hyeong::number::big_number::BigNum;
use hyeong::number::num::Num;
use proptest::prelude::*;
use serde_json::{json, Value};

pub const RULE: &str = "cases = (big integer from sign + limb vector incl. values with aligned zero digit blocks like base^k and \
base^k +- 1, base 2..36): to_string_base must equal the independent radix rendering, from_string_base of both the implementation's \
and the reference's text must give back the integer; and rationals (expression results incl. negative fractions, multi-limb \
denominators, NaN of three kinds): Num::from_string(to_string) must be == and print the same; \
non-trivial = integer has >= 2 limbs or base != 10, value != 0 / rational is a fraction, negative, or NaN; distinct = distinct (value, base)";

#[derive(Clone, Debug)]
pub enum Case9 {
    Int { v: Big, base: u32 },
    Rat { e: Expr },
}

impl Case for Case9 {
    fn to_json(&self) -> Value {
        match self {
            Case9::Int { v, base } => json!({"kind":"int","v":v.to_json(),"base":base}),
            Case9::Rat { e } => json!({"kind":"rat","e":e.to_json(),"value":e.eval_ref().text()}),
        }
    }
    fn from_json(v: &Value) -> Option<Self> {
        match v.get("kind")?.as_str()? {
            "int" => Some(Case9::Int { v: Big::from_json(v.get("v")?)?, base: v.get("base")?.as_u64()? as u32 }),
            "rat" => Some(Case9::Rat { e: Expr::from_json(v.get("e")?)? }),
            _ => None,
        }
    }
}

fn int_strategy(max: usize) -> BoxedStrategy<Case9> {
    let base = prop_oneof![3 => Just(10u32), 2 => Just(2u32), 2 => Just(16u32), 1 => Just(36u32), 1 => Just(3u32), 6 => 2u32..=36];
    // base^k + delta: values whose rendering has long runs of zero digits / (base-1) digits
    let power = (base.clone(), 0u32..80, -2i128..=2, any::<bool>(), 1u32..36).prop_map(|(b, k, d, neg, m)| {
        let mut v = RefInt::one();
        for _ in 0..k {
            v = v.mul(&RefInt::from_i128(b as i128));
        }
        v = v.mul(&RefInt::from_i128((m % b).max(1) as i128)).add(&RefInt::from_i128(d));
        if neg {
            v = v.neg();
        }
        Case9::Int { v: Big::from_ref(&v), base: b }
    });
    // power of another base rendered in this base (e.g. 10^18 in base 10 chunks, 2^32 in base 16)
    let power2 = (base.clone(), prop_oneof![Just(2u32), Just(10u32), Just(16u32)], 0u32..70, any::<bool>()).prop_map(|(b, b2, k, neg)| {
        let mut v = RefInt::one();
        for _ in 0..k {
            v = v.mul(&RefInt::from_i128(b2 as i128));
        }
        if neg {
            v = v.neg();
        }
        Case9::Int { v: Big::from_ref(&v), base: b }
    });
    // digit strings with blocks of zeros at chunk-like positions
    let blocks = (base.clone(), prop::collection::vec((0u32..36, prop_oneof![Just(1usize), Just(6), Just(7), Just(8), Just(9), Just(10), Just(31), Just(32), 1usize..12]), 1..6), any::<bool>()).prop_map(
        |(b, runs, neg)| {
            let mut v = RefInt::zero();
            for (d, n) in runs {
                for _ in 0..n {
                    v = v.mul(&RefInt::from_i128(b as i128)).add(&RefInt::from_i128((d % b) as i128));
                }
            }
            if neg {
                v = v.neg();
            }
            Case9::Int { v: Big::from_ref(&v), base: b }
        },
    );
    prop_oneof![
        6 => (big(max), base).prop_map(|(v, base)| Case9::Int { v, base }),
        3 => power,
        2 => power2,
        3 => blocks,
    ]
    .boxed()
}

pub fn check(c: &Case9, st: &mut Stats) -> CheckResult {
    match c {
        Case9::Int { v, base } => {
            let r = v.to_ref();
            let x = v.to_impl();
            let want = r.to_radix(*base);
            let got = match x.to_string_base(*base as usize) {
                Ok(s) => s,
                Err(e) => fail!("c09:to_string_base", "to_string_base({}, {}) failed: {}", r.to_dec(), base, e),
            };
            ensure!(got == want, "c09:to_string_base", "{} in base {} renders `{}` want `{}`", r.to_dec(), base, got, want);
            // reading the implementation's own text
            match BigNum::from_string_base(got.clone(), *base as usize) {
                Ok(back) => {
                    let w = impl_from_ref(&r);
                    ensure!(back == w && w == back, "c09:roundtrip", "{} base {}: text `{}` reads back as {}", r.to_dec(), base, got, back);
                    ensure!(back.is_pos() == !r.is_neg(), "c09:roundtrip", "{} base {}: sign lost reading back", r.to_dec(), base);
                }
                Err(e) => fail!("c09:roundtrip", "from_string_base(`{}`, {}) failed: {}", got, base, e),
            }
            // reading the reference text (reading checked independently of writing)
            match BigNum::from_string_base(want.clone(), *base as usize) {
                Ok(back) => {
                    let w = impl_from_ref(&r);
                    ensure!(back == w && w == back, "c09:from_string_base", "`{}` in base {} reads as {} want {}", want, base, back, r.to_dec());
                    ensure!(back.is_zero() == r.is_zero(), "c09:from_string_base", "`{}` in base {}: is_zero wrong", want, base);
                }
                Err(e) => fail!("c09:from_string_base", "from_string_base(`{}`, {}) failed: {}", want, base, e),
            }
            if *base == 10 {
                ensure!(format!("{}", x) == want, "c09:display", "Display of {} is `{}`", want, x);
                match BigNum::from_string(want.clone()) {
                    Ok(back) => ensure!(back == x, "c09:from_string", "from_string(`{}`) != value", want),
                    Err(e) => fail!("c09:from_string", "from_string(`{}`) failed: {}", want, e),
                }
            }
            st.class(&format!("base {}", if *base == 10 { "10".to_string() } else if *base < 10 { "2..9".to_string() } else { "11..36".to_string() }));
            if want.contains("000000000") {
                st.class("rendering has a run of >= 9 zero digits");
            }
            if r.is_neg() {
                st.class("negative integer");
            }
            if !r.is_zero() && (v.sig_limbs() >= 2 || *base != 10) {
                st.nontrivial(&(v, base), || json!({"value": r.to_dec(), "base": base, "text": want}));
            }
            Ok(())
        }
        Case9::Rat { e } => {
            let r = e.eval_ref();
            let x = e.eval_impl();
            let text = x.to_string();
            ensure!(text == r.text(), "c09:num-display", "value {} prints `{}`", r.text(), text);
            let back = Num::from_string(text.clone());
            ensure!(back.is_nan() == r.is_nan(), "c09:num-roundtrip", "`{}` reads back with is_nan={}", text, back.is_nan());
            if !r.is_nan() {
                ensure!(back == x && x == back, "c09:num-roundtrip", "`{}` reads back as `{}` (not ==)", text, back);
                ensure!(back.is_pos() == r.is_nonneg(), "c09:num-roundtrip", "`{}` reads back with is_pos={}", text, back.is_pos());
            }
            ensure!(back.to_string() == text, "c09:num-roundtrip", "`{}` reads back and prints `{}`", text, back);
            // the reference text reads as the value, too
            let back2 = Num::from_string(r.text());
            ensure!(back2.to_string() == r.text(), "c09:num-from_string", "`{}` reads and prints `{}`", r.text(), back2);
            match &r {
                RefRat::NaN => st.class("rational: NaN"),
                q if !q.is_integer() && !q.is_nonneg() => st.class("rational: negative fraction"),
                q if !q.is_integer() => st.class("rational: positive fraction"),
                q if !q.is_nonneg() => st.class("rational: negative integer"),
                _ => st.class("rational: non-negative integer"),
            }
            if let Some((_, d)) = r.parts() {
                if d.to_limbs().1.len() >= 2 {
                    st.class("rational: multi-limb denominator");
                    if d.to_limbs().1[0] <= 1 {
                        st.class("rational: multi-limb denominator with low limb 0/1");
                    }
                }
            }
            if r.is_nan() || !r.is_integer() || !r.is_nonneg() {
                st.nontrivial(&("rat", r.text()), || json!({"rational": r.text()}));
            }
            Ok(())
        }
    }
}

pub fn run(ctx: &Ctx, out: &mut Outcome) {
    let t = ctx.tier;
    let max = t.pick(6usize, 12usize);
    search::<Case9>(ctx, out, "int-radix", t.pick(20_000, 200_000), &move || int_strategy(max), &check);
    search::<Case9>(ctx, out, "int-radix-short", t.pick(10_000, 100_000), &|| int_strategy(2), &check);
    let rl = t.pick(3usize, 6usize);
    search::<Case9>(ctx, out, "rational-text", t.pick(15_000, 150_000), &move || expr(rl, 2).prop_map(|e| Case9::Rat { e }).boxed(), &check);
}

pub fn replay(_ctx: &Ctx, v: &Value) -> Result<CheckResult, String> {
    replay_case::<Case9>(v, &check)
}

pub fn gates(out: &Outcome, tier: Tier) -> Vec<String> {
    let mut v = Vec::new();
    let m = tier.pick(1, 8);
    for (class, min) in [
        ("base 10", 3000u64),
        ("base 2..9", 3000),
        ("base 11..36", 3000),
        ("negative integer", 5000),
        ("rendering has a run of >= 9 zero digits", 1000),
        ("rational: NaN", 300),
        ("rational: negative fraction", 1000),
        ("rational: multi-limb denominator", 1000),
        ("rational: multi-limb denominator with low limb 0/1", 20),
    ] {
        if out.stats.get(class) < min * m {
            v.push(format!("class '{}' has {} cases, need >= {}", class, out.stats.get(class), min * m));
        }
    }
    v
}
