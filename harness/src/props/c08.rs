//! C08 — any command list can be written as source text and is read back unchanged;
//! raw texts re-parse to the same commands; the `check` listing determines every command.

use crate::engine::*;
use crate::proc;
use crate::refparse::*;
use crate::{ensure, fail};
use hyeong::core::code::Code;
use hyeong::core::parse;
use proptest::prelude::*;
use serde_json::{json, Value};

pub const RULE: &str = "(a) command lists (kind, syllable count up to 3000, dot count up to 3000, grammar-shaped areas up to ~300 operators) \
rendered with a generated junk plan (filler syllables incl. command syllables inside heads, non-Hangul noise inside heads, ellipsis \
characters, junk between dots, redundant hearts, dots/whitespace/foreign text inside areas, area characters and dots before the first \
command, stray start syllables at the end) must parse back to the same list; (b) for arbitrary strings parse(concat(raw texts)) = parse; \
(c) Display/Debug of every area tree is inverted back to the tree and the `hyeong check` listing of rendered files is inverted back to \
the command list with the right index and line:column, including files of up to 1 MiB in which a multi-byte command character lies across a multiple of a power-of-two block size (512 … 1 MiB); non-trivial = >= 3 commands, >= 2 distinct junk places used, an area with both operators \
(for (b): >= 2 commands with an area or multi-syllable head); distinct = distinct text";

// (the last five entries are code points adjacent to hearts, dots and `?`/`!`: not significant themselves)
const GEN_JUNK: [&str; 27] = ["", " ", "\n", "  ", "\t", "가", "나다", "abc", "你好", "😀", "엉", "앙", "읏", "‥", "·", "\u{3000}", "#", "\r\n", "앗읍윽", " \n ", "ㅎ", "1_2", "💞", "💔", "♢♠", "❣", ">@\""];
const HEAD_JUNK: [&str; 12] = ["", "", " ", "\n", ".", "…", "♥", "?", "!", "abc", "😀", "ㅎ"];
const AREA_EXTRA: [&str; 5] = [".", "…", "..", " . ", "⋮"];
const PRE_EXTRA: [&str; 8] = ["?", "♥", "..", "!", "💖?", "…", "♡!♡", "엉?"];

struct Plan<'a> {
    v: &'a [u16],
    i: usize,
    places: std::collections::BTreeSet<&'static str>,
}

impl<'a> Plan<'a> {
    fn next(&mut self) -> u16 {
        let x = self.v.get(self.i).copied().unwrap_or(0);
        self.i += 1;
        x
    }
    fn pick<'b>(&mut self, place: &'static str, table: &[&'b str]) -> &'b str {
        let s = table[pick_idx(self.next(), table.len())];
        if !s.is_empty() {
            self.places.insert(place);
        }
        s
    }
}

fn fillers_for(class: usize) -> &'static [char] {
    match class {
        0 => &['어', '어', '가', '형', '하', '흐', '앙', '읏', '혀', '항', '힣'],
        1 => &['아', '아', '가', '형', '혀', '흐', '엉', '윽', '하', '흑', '힣'],
        _ => &['으', '으', '가', '형', '혀', '하', '엉', '앗', '흐', '핫', '힣'],
    }
}

/// render with junk; returns (text, number of distinct junk places used)
pub fn render_noisy(cmds: &[RCmd], plan: &[u16]) -> (String, usize) {
    let mut p = Plan { v: plan, i: 0, places: Default::default() };
    let mut s = String::new();
    // before the first command everything except a command start is ignored
    for _ in 0..2 {
        let k = p.next();
        if k % 3 == 1 {
            s.push_str(p.pick("before-first", &PRE_EXTRA));
        } else if k % 3 == 2 {
            s.push_str(p.pick("before-first", &GEN_JUNK));
        }
    }
    for c in cmds {
        // head
        let k = c.kind as usize;
        if c.h == 1 {
            s.push(ONE_SYLLABLE[k]);
        } else {
            let class = [0, 1, 1, 2, 2, 2][k];
            s.push(STARTS[class]);
            let fl = fillers_for(class);
            for i in 0..c.h - 2 {
                if i < 6 {
                    s.push_str(p.pick("inside-head", &HEAD_JUNK));
                    let f = fl[pick_idx(p.next(), fl.len())];
                    if f != fl[0] {
                        p.places.insert("filler-syllable");
                    }
                    s.push(f);
                } else {
                    s.push(fl[0]);
                }
            }
            s.push_str(p.pick("inside-head", &HEAD_JUNK));
            s.push(ENDS[k]);
        }
        // dots
        let mut remaining = c.d;
        let mut pos = 0;
        while remaining > 0 {
            if pos < 5 {
                s.push_str(p.pick("between-dots", &GEN_JUNK));
            }
            if remaining >= 3 && (pos >= 5 && remaining > 40 || p.next() % 3 == 0) {
                let e = DOTS3[pick_idx(p.next(), 3)];
                s.push(e);
                p.places.insert("ellipsis");
                remaining -= 3;
            } else {
                s.push('.');
                remaining -= 1;
            }
            pos += 1;
        }
        // area
        let has_area = c.has_area();
        if has_area {
            s.push_str(p.pick("before-area", &GEN_JUNK));
            let mut started = false;
            let mut tokens = 0usize;
            for (i, seg) in c.area.iter().enumerate() {
                if i > 0 {
                    s.push('?');
                    started = true;
                    tokens += 1;
                }
                for (j, slot) in seg.iter().enumerate() {
                    if j > 0 {
                        s.push('!');
                        started = true;
                        tokens += 1;
                    }
                    if let Some(h) = slot {
                        s.push(heart_char(*h));
                        started = true;
                        tokens += 1;
                        if tokens < 8 && p.next() % 4 == 0 {
                            // redundant hearts in the same slot
                            s.push(HEARTS[pick_idx(p.next(), 12)]);
                            p.places.insert("redundant-heart");
                        }
                    }
                    if started && tokens < 8 {
                        let k = p.next();
                        if k % 4 == 1 {
                            s.push_str(p.pick("inside-area", &AREA_EXTRA));
                        } else if k % 4 == 2 {
                            s.push_str(p.pick("inside-area", &GEN_JUNK));
                        }
                    }
                }
            }
        }
        // separator
        let k = p.next();
        if has_area && k % 4 == 3 {
            s.push_str(p.pick("after-area", &AREA_EXTRA));
        }
        let sep = p.pick("between-commands", &GEN_JUNK);
        s.push_str(sep);
    }
    // trailing: stray start syllables (nothing follows, so no end syllable can match them)
    let k = p.next();
    if k % 3 == 1 {
        s.push_str(["혀", "하", "흐", "혀하흐", " 하아", "흐으 "][pick_idx(p.next(), 6)]);
        p.places.insert("stray-start-at-end");
    }
    let n = p.places.len();
    (s, n)
}

pub fn area_shape_big(max_ops: usize) -> BoxedStrategy<AreaShape> {
    let heart = prop_oneof![2 => Just(None), 6 => (2u8..=13).prop_map(Some)];
    let segs = (max_ops / 3).max(1);
    prop::collection::vec(prop::collection::vec(heart, 1..=4), 1..=segs).boxed()
}

pub fn list_cmd(big: bool) -> BoxedStrategy<RCmd> {
    let h = if big {
        prop_oneof![30 => 1usize..=3, 10 => 4usize..=12, 2 => 13usize..=300, 1 => 301usize..=3000].boxed()
    } else {
        prop_oneof![30 => 1usize..=3, 10 => 4usize..=12].boxed()
    };
    let d = if big {
        prop_oneof![30 => 0usize..=9, 10 => 10usize..=40, 2 => 41usize..=400, 1 => 401usize..=3000].boxed()
    } else {
        prop_oneof![30 => 0usize..=9, 5 => 10usize..=40].boxed()
    };
    let area = if big {
        prop_oneof![6 => Just(vec![vec![None]]), 10 => area_shape_big(12), 2 => area_shape_big(100), 1 => area_shape_big(300)].boxed()
    } else {
        prop_oneof![6 => Just(vec![vec![None]]), 10 => area_shape_big(12)].boxed()
    };
    (0u8..6, h, d, area).prop_map(|(kind, h, d, area)| RCmd { kind, h, d, area }).boxed()
}

/// (commands, plan, rendered text)
pub fn rendered_strategy(max_cmds: usize, big: bool) -> BoxedStrategy<(Vec<RCmd>, Vec<u16>, String)> {
    (prop::collection::vec(list_cmd(big), 1..=max_cmds), prop::collection::vec(any::<u16>(), 0..200))
        .prop_map(|(cmds, plan)| {
            let (text, _) = render_noisy(&cmds, &plan);
            (cmds, plan, text)
        })
        .boxed()
}

#[derive(Clone, Debug)]
pub enum Case8 {
    Render { cmds: Vec<RCmd>, plan: Vec<u16> },
    Reparse { text: String },
    Listing { cmds: Vec<RCmd>, plan: Vec<u16> },
    /// a source file in which a multi-byte significant character lies across the byte offset `boundary`
    BigFile { cmds: Vec<RCmd>, boundary: usize, pick: u16 },
}

/// ASCII filler (not significant, with line breaks) followed by the canonical text of `cmds`, sized so that the `pick`-th
/// multi-byte character of the commands has its first byte(s) before byte offset `boundary` and the rest after it
pub fn big_file_text(cmds: &[RCmd], boundary: usize, pick: u16) -> Option<String> {
    let (body, _) = render_noisy(cmds, &[]);
    pad_to_boundary(&body, boundary, pick)
}

/// ASCII filler + `body`, sized so that the `pick`-th multi-byte character of `body` lies across byte offset `boundary`
pub fn pad_to_boundary(body: &str, boundary: usize, pick: u16) -> Option<String> {
    let multi: Vec<(usize, usize)> = body.char_indices().filter(|(_, c)| c.len_utf8() > 1).map(|(o, c)| (o, c.len_utf8())).collect();
    if multi.is_empty() {
        return None;
    }
    let (o, len) = multi[pick_idx(pick, multi.len())];
    let k = 1 + (pick as usize) % (len - 1);
    if boundary < o + k {
        return None;
    }
    let fill = boundary - o - k;
    let mut s = String::with_capacity(fill + body.len());
    const LINE: &str = "filler text that the language ignores, line after line; no dots or marks\n";
    while s.len() + LINE.len() <= fill {
        s.push_str(LINE);
    }
    while s.len() < fill {
        s.push(' ');
    }
    s.push_str(body);
    debug_assert!(!s.is_char_boundary(boundary));
    Some(s)
}

impl Case for Case8 {
    fn to_json(&self) -> Value {
        match self {
            Case8::Render { cmds, plan } => json!({"kind":"render","cmds":cmds.iter().map(|c| c.to_json()).collect::<Vec<_>>(),"plan":plan,"text":render_noisy(cmds, plan).0}),
            Case8::Listing { cmds, plan } => json!({"kind":"listing","cmds":cmds.iter().map(|c| c.to_json()).collect::<Vec<_>>(),"plan":plan,"text":render_noisy(cmds, plan).0}),
            Case8::Reparse { text } => json!({"kind":"reparse","text":text}),
            Case8::BigFile { cmds, boundary, pick } => json!({"kind":"bigfile","cmds":cmds.iter().map(|c| c.to_json()).collect::<Vec<_>>(),"boundary":boundary,"pick":pick,
                "note":"file = ASCII filler lines + canonical text of cmds; a multi-byte character of the commands lies across byte offset `boundary`"}),
        }
    }
    fn from_json(v: &Value) -> Option<Self> {
        let cmds = || -> Option<Vec<RCmd>> { v.get("cmds")?.as_array()?.iter().map(RCmd::from_json).collect() };
        let plan = || -> Option<Vec<u16>> { v.get("plan")?.as_array()?.iter().map(|x| x.as_u64().map(|y| y as u16)).collect() };
        match v.get("kind")?.as_str()? {
            "render" => Some(Case8::Render { cmds: cmds()?, plan: plan()? }),
            "listing" => Some(Case8::Listing { cmds: cmds()?, plan: plan()? }),
            "reparse" => Some(Case8::Reparse { text: v.get("text")?.as_str()?.to_string() }),
            "bigfile" => Some(Case8::BigFile { cmds: cmds()?, boundary: v.get("boundary")?.as_u64()? as usize, pick: v.get("pick")?.as_u64()? as u16 }),
            _ => None,
        }
    }
}

fn same_commands(got: &[hyeong::core::code::UnOptCode], cmds: &[RCmd], sig: &str, what: &str) -> CheckResult {
    ensure!(got.len() == cmds.len(), sig, "{}: {} commands read back, {} written", what, got.len(), cmds.len());
    for (i, (g, c)) in got.iter().zip(cmds.iter()).enumerate() {
        let want_area = c.tree().prefix();
        let got_tree = RArea::from_impl(g.get_area());
        let got_area = got_tree.prefix();
        ensure!(
            g.get_type() == c.kind && g.get_hangul_count() == c.h && g.get_dot_count() == c.d && got_tree == c.tree(),
            sig,
            "{}: command {} read back as {}_{}_{} {} but was written as {}_{}_{} {}",
            what,
            i,
            ONE_SYLLABLE[g.get_type() as usize % 6],
            g.get_hangul_count(),
            g.get_dot_count(),
            got_area,
            ONE_SYLLABLE[c.kind as usize],
            c.h,
            c.d,
            want_area
        );
    }
    Ok(())
}

/// parse one line of the `check` listing: (index, line, col, kind, h, d, area).
/// Tolerant of the cosmetic parts (separators, padding, file name): the index is the leading integer, the command is the first
/// `<syllable>_<digits>_<digits> <area>` token, line and column are the last two `:`-separated integers in front of it.
pub fn parse_listing_line(line: &str, _file_name: &str) -> Option<(usize, usize, usize, u8, usize, usize, RArea)> {
    let t = line.trim_start();
    let digits: String = t.chars().take_while(|c| c.is_ascii_digit()).collect();
    let idx: usize = digits.parse().ok()?;
    let chars: Vec<(usize, char)> = line.char_indices().collect();
    for (n, &(pos, c)) in chars.iter().enumerate() {
        let kind = match ONE_SYLLABLE.iter().position(|&k| k == c) {
            Some(k) => k as u8,
            None => continue,
        };
        let rest = &line[pos + c.len_utf8()..];
        let rest = match rest.strip_prefix('_') {
            Some(r) => r,
            None => continue,
        };
        let (h, rest) = match rest.split_once('_') {
            Some(x) => x,
            None => continue,
        };
        let (d, area) = match rest.split_once(' ') {
            Some(x) => x,
            None => continue,
        };
        let (h, d) = match (h.parse::<usize>(), d.parse::<usize>()) {
            (Ok(h), Ok(d)) => (h, d),
            _ => continue,
        };
        let area = RArea::parse_infix(area.trim_end())?;
        // location: the last `:<digits>:<digits>` in front of the command token (whatever separators / padding follow it)
        let before: Vec<char> = line[..pos].chars().collect();
        let _ = n;
        let mut j = before.len();
        while j > 0 {
            j -= 1;
            if before[j] != ':' {
                continue;
            }
            // digits after this ':' = column
            let mut e = j + 1;
            while e < before.len() && before[e].is_ascii_digit() {
                e += 1;
            }
            if e == j + 1 {
                continue;
            }
            // digits before this ':' preceded by another ':' = line
            let mut b = j;
            while b > 0 && before[b - 1].is_ascii_digit() {
                b -= 1;
            }
            if b == j || b == 0 || before[b - 1] != ':' {
                continue;
            }
            let col: usize = before[j + 1..e].iter().collect::<String>().parse().ok()?;
            let l: usize = before[b..j].iter().collect::<String>().parse().ok()?;
            return Some((idx, l, col, kind, h, d, area));
        }
        return None;
    }
    None
}

pub fn check_with(ctx_bin: Option<(&std::path::Path, &std::path::Path)>, c: &Case8, st: &mut Stats) -> CheckResult {
    match c {
        Case8::Render { cmds, plan } => {
            let (text, places) = render_noisy(cmds, plan);
            // harness sanity: the reference parser must agree that this text denotes the list
            let r = ref_parse(&text);
            let ok = r.len() == cmds.len() && r.iter().zip(cmds.iter()).all(|(a, b)| a.kind == b.kind && a.h == b.h && a.d == b.d && a.area == b.tree());
            if !ok {
                fail!("harness:render", "harness defect: the renderer produced text the reference parser reads differently: {:?}", text);
            }
            let got = guarded("parse", || parse::parse(text.clone()))?;
            same_commands(&got, cmds, "c08:roundtrip", "render -> parse")?;
            // area notations are invertible
            for g in &got {
                let tree = RArea::from_impl(g.get_area());
                ensure!(RArea::parse_infix(&format!("{}", g.get_area())) == Some(tree.clone()), "c08:display-inverse", "Display of area {} is not invertible: {}", tree.prefix(), g.get_area());
                ensure!(RArea::parse_prefix(&format!("{:?}", g.get_area())) == Some(tree.clone()), "c08:debug-inverse", "Debug of area {} is not invertible", tree.prefix());
            }
            st.class(&format!("junk places used: {}", places.min(6)));
            if cmds.iter().any(|c| c.h > 300) {
                st.class("syllable count > 300");
            }
            if cmds.iter().any(|c| c.d > 300) {
                st.class("dot count > 300");
            }
            if cmds.iter().any(|c| c.tree().operators() >= 50) {
                st.class("area with >= 50 operators");
            }
            if cmds.len() >= 3 && places >= 2 && cmds.iter().any(|c| c.tree().has_q() && c.tree().has_b()) {
                let t = text.clone();
                st.nontrivial(&text, || json!({"text": if t.chars().count() > 300 { t.chars().take(300).collect::<String>() + "…(truncated)" } else { t }, "commands": cmds.len(), "junk_places": places}));
            }
            Ok(())
        }
        Case8::Reparse { text } => {
            let first = guarded("parse", || parse::parse(text.clone()))?;
            let joined: String = first.iter().map(|c| c.get_raw()).collect();
            let second = guarded("parse", || parse::parse(joined.clone()))?;
            ensure!(first.len() == second.len(), "c08:reparse", "re-parsing the reported source texts gives {} commands, the input gave {}", second.len(), first.len());
            for (i, (a, b)) in first.iter().zip(second.iter()).enumerate() {
                let (aa, ba) = (format!("{:?}", a.get_area()), format!("{:?}", b.get_area()));
                ensure!(
                    a.get_type() == b.get_type() && a.get_hangul_count() == b.get_hangul_count() && a.get_dot_count() == b.get_dot_count() && aa == ba,
                    "c08:reparse",
                    "command {}: {}_{}_{} {} re-parses from its raw text {:?} as {}_{}_{} {}",
                    i,
                    a.get_type(),
                    a.get_hangul_count(),
                    a.get_dot_count(),
                    aa,
                    a.get_raw(),
                    b.get_type(),
                    b.get_hangul_count(),
                    b.get_dot_count(),
                    ba
                );
                ensure!(a.get_raw() == b.get_raw(), "c08:reparse-raw", "command {}: raw text changes on re-parse: {:?} -> {:?}", i, a.get_raw(), b.get_raw());
            }
            st.class("reparse cases");
            if first.len() >= 2 && first.iter().filter(|c| c.get_hangul_count() >= 2 || !matches!(c.get_area(), hyeong::core::area::Area::Nil)).count() >= 2 {
                let t = text.clone();
                st.nontrivial(&("reparse", text), || json!({"reparse_text": t, "commands": first.len()}));
            }
            Ok(())
        }
        Case8::Listing { cmds, plan } => {
            let (text, _) = render_noisy(cmds, plan);
            listing_check(ctx_bin, &text, cmds, st)
        }
        Case8::BigFile { cmds, boundary, pick } => {
            let text = match big_file_text(cmds, *boundary, *pick) {
                Some(t) => t,
                None => {
                    st.exclude("big file: no multi-byte character can be placed on the boundary");
                    return Ok(());
                }
            };
            listing_check(ctx_bin, &text, cmds, st)?;
            st.class("big file: multi-byte character across a power-of-two byte offset");
            st.class(&format!("big file boundary {}", boundary));
            Ok(())
        }
    }
}

fn listing_check(ctx_bin: Option<(&std::path::Path, &std::path::Path)>, text: &str, cmds: &[RCmd], st: &mut Stats) -> CheckResult {
    let (bin, scratch) = ctx_bin.ok_or_else(|| Failure::new("harness:no-binary", "listing case without binary"))?;
    let dir = proc::scratch_dir(scratch, "chk");
    let file = dir.join("p.hyeong");
    std::fs::write(&file, text).map_err(|e| Failure::new("harness:io", e.to_string()))?;
    let o = proc::run(bin, &["--color", "never", "check", file.to_str().unwrap()], &proc::RunOpts::new(b"")).map_err(|e| Failure::new("harness:spawn", e.to_string()))?;
    let _ = std::fs::remove_dir_all(&dir);
    if o.status == proc::Status::Timeout {
        fail!("harness:timeout", "check timed out");
    }
    ensure!(o.status == proc::Status::Code(0), "c08:check-status", "`hyeong check` ended with {:?}, stderr {:?}", o.status, o.err_str());
    let out = o.out_str();
    // listing lines are the lines that start with an index; whatever else the tool logs is not compared
    let body: String = out.lines().filter(|l| l.trim_start().chars().next().map(|c| c.is_ascii_digit()).unwrap_or(false)).map(|l| format!("{}\n", l)).collect();
    let body = body.as_str();
    let parsed = ref_parse(text);
    let lines: Vec<&str> = body.lines().collect();
    // a command's line cannot contain a newline, so lines = commands
    ensure!(lines.len() == cmds.len(), "c08:listing", "listing has {} lines for {} commands:\n{}", lines.len(), cmds.len(), body.chars().take(2000).collect::<String>());
    for (i, line) in lines.iter().enumerate() {
        let (idx, l, col, kind, h, d, area) = match parse_listing_line(line, "p.hyeong") {
            Some(x) => x,
            None => fail!("c08:listing", "listing line {:?} cannot be read back", line),
        };
        let c = &cmds[i];
        ensure!(idx == i, "c08:listing", "line {} carries index {}", i, idx);
        ensure!(kind == c.kind && h == c.h && d == c.d && area == c.tree(), "c08:listing", "listing line {:?} does not denote the command {}_{}_{} {}", line, ONE_SYLLABLE[c.kind as usize], c.h, c.d, c.tree().prefix());
        ensure!((l, col) == parsed[i].loc, "c08:listing-location", "listing line {:?} shows {}:{} but the command is at {:?}", line, l, col, parsed[i].loc);
    }
    st.class("check listings compared");
    if cmds.len() >= 3 && cmds.iter().any(|c| c.tree().has_q() && c.tree().has_b()) {
        st.nontrivial(&("listing", text), || json!({"listing": body.lines().take(6).collect::<Vec<_>>()}));
    }
    Ok(())
}

/// listings whose index / line / column values sit around powers of ten (the listing pads its columns by digit count)
fn wide_listing() -> BoxedStrategy<Case8> {
    let n = prop::sample::select(vec![9usize, 10, 11, 99, 100, 101, 999, 1000, 1001, 1002]);
    (n, list_cmd(false), any::<bool>(), prop::sample::select(vec![0u16, 2, 18]))
        .prop_map(|(n, special, newline, sep)| {
            // plan: GEN_JUNK index 1 = " ", index 2 = "\n" as the separator between commands (all other choices 0 = no junk)
            let mut cmds: Vec<RCmd> = (0..n).map(|i| RCmd::new((i % 6) as u8, 1 + i % 2, i % 3)).collect();
            let at = n / 2;
            cmds[at] = special;
            let _ = (newline, sep);
            Case8::Listing { cmds, plan: Vec::new() }
        })
        .boxed()
}

/// source files larger than the block sizes a file reader may use, with a multi-byte command character across the block edge
fn big_file_strategy() -> BoxedStrategy<Case8> {
    let boundary = prop_oneof![
        4 => prop::sample::select(vec![512usize, 1024, 4096, 8192, 16384, 32768, 65536, 131072, 262144, 1 << 20]),
        2 => (1usize..=24).prop_map(|k| k * 8192),
        1 => (1usize..=6).prop_map(|k| k * 65536),
    ];
    (prop::collection::vec(list_cmd(false), 3..40), boundary, any::<u16>()).prop_map(|(cmds, boundary, pick)| Case8::BigFile { cmds, boundary, pick }).boxed()
}

pub fn run(ctx: &Ctx, out: &mut Outcome) {
    let t = ctx.tier;
    let bin = ctx.hyeong_bin();
    let scratch = ctx.scratch.clone();
    search::<Case8>(
        ctx,
        out,
        "render",
        t.pick(40_000, 400_000),
        &|| rendered_strategy(12, true).prop_map(|(cmds, plan, _)| Case8::Render { cmds, plan }).boxed(),
        &|c, st| check_with(None, c, st),
    );
    search::<Case8>(
        ctx,
        out,
        "render-small",
        t.pick(60_000, 600_000),
        &|| rendered_strategy(30, false).prop_map(|(cmds, plan, _)| Case8::Render { cmds, plan }).boxed(),
        &|c, st| check_with(None, c, st),
    );
    let n = t.pick(60, 400);
    search::<Case8>(
        ctx,
        out,
        "reparse-free",
        t.pick(150_000, 1_000_000),
        &move || prop::collection::vec(super::c04::any_char(), 0..n).prop_map(|v| Case8::Reparse { text: v.into_iter().collect() }).boxed(),
        &|c, st| check_with(None, c, st),
    );
    search::<Case8>(
        ctx,
        out,
        "reparse-rendered",
        t.pick(40_000, 300_000),
        &|| rendered_strategy(10, false).prop_map(|(_, _, text)| Case8::Reparse { text }).boxed(),
        &|c, st| check_with(None, c, st),
    );
    {
        let (bin, scratch) = (bin.clone(), scratch.clone());
        search::<Case8>(ctx, out, "check-listing-wide", t.pick(60, 400), &wide_listing, &move |c, st| check_with(Some((&bin, &scratch)), c, st));
    }
    {
        let (bin, scratch) = (bin.clone(), scratch.clone());
        search::<Case8>(ctx, out, "check-listing-big-file", t.pick(96, 600), &big_file_strategy, &move |c, st| check_with(Some((&bin, &scratch)), c, st));
    }
    search::<Case8>(
        ctx,
        out,
        "check-listing",
        t.pick(1_500, 10_000),
        &|| rendered_strategy(8, false).prop_map(|(cmds, plan, _)| Case8::Listing { cmds, plan }).boxed(),
        &move |c, st| check_with(Some((&bin, &scratch)), c, st),
    );
}

pub fn replay(ctx: &Ctx, v: &Value) -> Result<CheckResult, String> {
    let bin = ctx.hyeong_bin();
    let scratch = ctx.scratch.clone();
    replay_case::<Case8>(v, &move |c, st| check_with(Some((&bin, &scratch)), c, st))
}

pub fn gates(out: &Outcome, tier: Tier) -> Vec<String> {
    let mut v = Vec::new();
    let m = tier.pick(1, 8);
    for (class, min) in [
        ("syllable count > 300", 50u64),
        ("dot count > 300", 50),
        ("area with >= 50 operators", 100),
        ("check listings compared", 300),
        ("big file: multi-byte character across a power-of-two byte offset", 40),
        ("reparse cases", 30000),
    ] {
        if out.stats.get(class) < min * m {
            v.push(format!("class '{}' has {} cases, need >= {}", class, out.stats.get(class), min * m));
        }
    }
    let many_places: u64 = (2..=6).map(|k| out.stats.get(&format!("junk places used: {}", k))).sum();
    if many_places < 10000 * m {
        v.push(format!("only {} rendered cases used >= 2 junk places", many_places));
    }
    v
}
