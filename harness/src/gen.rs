//! Program and input generators shared by the program-level properties.

use crate::refexec::MCmd;
use crate::refparse::{parse_shape, render_canonical, shape_text, AreaShape, RCmd};
use proptest::prelude::*;
use serde_json::{json, Value};

#[derive(Clone, Debug)]
pub struct Profile {
    /// may the program select stack 0 (read input)?
    pub select0: bool,
    /// weight of "large" syllable / dot counts
    pub big_counts: bool,
    /// extra weight on 흑 with d in 0..=2 and on areas (C10)
    pub io_heavy: bool,
    /// extra weight on stacks above 3 (C02)
    pub many_stacks: bool,
    pub max_len: usize,
    pub idioms: bool,
}

impl Profile {
    pub fn general(max_len: usize) -> Profile {
        Profile { select0: true, big_counts: true, io_heavy: false, many_stacks: false, max_len, idioms: true }
    }
    pub fn input_free(max_len: usize) -> Profile {
        Profile { select0: false, big_counts: false, io_heavy: false, many_stacks: false, max_len, idioms: true }
    }
}

const HEART_SET: [u8; 4] = [2, 5, 9, 13];

pub fn heart() -> impl Strategy<Value = Option<u8>> {
    prop_oneof![
        3 => Just(None),
        8 => (0usize..HEART_SET.len()).prop_map(|i| Some(HEART_SET[i])),
        1 => (2u8..=13).prop_map(Some),
    ]
}

pub fn small_area() -> BoxedStrategy<AreaShape> {
    prop_oneof![
        11 => Just(vec![vec![None]]),
        4 => heart().prop_map(|h| vec![vec![h]]),
        5 => prop::collection::vec(prop::collection::vec(heart(), 1..=3), 1..=3),
    ]
    .boxed()
}

fn count_h(big: bool) -> BoxedStrategy<usize> {
    if big {
        prop_oneof![50 => Just(1usize), 25 => Just(2usize), 10 => Just(3usize), 10 => 4usize..=6, 4 => 7usize..=40, 1 => 100usize..=3000].boxed()
    } else {
        prop_oneof![50 => Just(1usize), 25 => Just(2usize), 10 => Just(3usize), 8 => 4usize..=6].boxed()
    }
}

fn count_d(p: &Profile) -> BoxedStrategy<usize> {
    let hi = if p.many_stacks { 6 } else { 2 };
    let big = if p.big_counts { 1 } else { 0 };
    prop_oneof![
        2 => Just(0usize),
        3 => Just(1usize),
        2 => Just(2usize),
        4 => Just(3usize),
        hi => Just(4usize),
        hi => Just(5usize),
        hi => 6usize..=8,
        big => 9usize..=40,
        big => 100usize..=3000,
        1 => Just(10usize),
    ]
    .boxed()
}

pub fn cmd(p: &Profile) -> BoxedStrategy<RCmd> {
    let select0 = p.select0;
    let io_heavy = p.io_heavy;
    let kind = if io_heavy {
        prop_oneof![2 => Just(0u8), 3 => Just(1u8), 2 => Just(2u8), 2 => Just(3u8), 2 => Just(4u8), 6 => Just(5u8)].boxed()
    } else {
        prop_oneof![4 => Just(0u8), 3 => Just(1u8), 2 => Just(2u8), 2 => Just(3u8), 2 => Just(4u8), 3 => Just(5u8)].boxed()
    };
    (kind, count_h(p.big_counts), count_d(p), small_area(), 0u8..4)
        .prop_map(move |(kind, h, mut d, area, r)| {
            if kind == 5 {
                if io_heavy && r < 3 {
                    d = r as usize; // select an I/O stack
                }
                if !select0 && d == 0 {
                    d = 3;
                }
                // copying thousands of values is just slow, not interesting
                return RCmd { kind, h: h.min(40), d, area };
            }
            RCmd { kind, h, d, area }
        })
        .boxed()
}

// ---------------------------------------------------------------------------------------------
// idioms (parameterised command sequences)

fn c(kind: u8, h: usize, d: usize) -> RCmd {
    RCmd::new(kind, h, d)
}
fn ca(kind: u8, h: usize, d: usize, a: &str) -> RCmd {
    RCmd::with_area(kind, h, d, parse_shape(a).unwrap())
}

/// counting loop on the selected stack (assumed to be stack 3 or higher): runs about `n` times,
/// optionally printing inside the loop
pub fn idiom_loop(n: usize, print: bool, heart: char) -> Vec<RCmd> {
    // counter := n + 2 ; HEAD: 항...♥ ; [print] ; counter -= 1 ; dup ; END: 항...?♥  (continues while dup >= 3)
    let hs = heart.to_string();
    let total = n + 2;
    // write the bound with few characters: the largest divisor <= 64 as syllable count
    let h = (1..=64usize).rev().find(|h| total % h == 0).unwrap_or(1);
    let d = total / h;
    let mut v = vec![c(0, h, d), ca(1, 1, 3, &hs)];
    if print {
        v.push(c(0, 3, 11)); // 33 '!'
        v.push(c(1, 1, 1));
    }
    v.push(c(0, 1, 1)); // 1
    v.push(c(3, 1, 4)); // -> -1 (copy to stack 4)
    v.push(c(1, 2, 3)); // counter - 1
    v.push(c(5, 1, 3)); // dup
    v.push(ca(1, 1, 3, &format!("?{}", hs)));
    v
}

/// counting loop that leaves no garbage behind (the counter goes down by 2 per round, nothing is parked on other stacks):
/// about `n` rounds; used where every state of the run is kept (debugger histories)
pub fn idiom_loop_clean(n: usize, print: bool, heart: char) -> Vec<RCmd> {
    let hs = heart.to_string();
    let total = 2 * n + 2;
    let h = (1..=64usize).rev().find(|h| total % h == 0).unwrap_or(1);
    let d = total / h;
    let mut v = vec![c(0, h, d), ca(1, 1, 3, &hs)];
    if print {
        v.push(c(0, 3, 11)); // 33 '!'
        v.push(c(1, 1, 1));
    }
    v.push(c(0, 1, 1)); // [c, 1]
    v.push(c(3, 1, 3)); // [c, -1, -1]
    v.push(c(1, 3, 3)); // [c - 2]
    v.push(c(5, 1, 3)); // dup
    v.push(ca(1, 1, 3, &format!("?{}", hs))); // continue while the copy is >= 3
    v
}

/// `idiom_loop_clean` whose every round prints the given code points (mixed UTF-8 widths put characters across any byte
/// offset a bounded output buffer may cut at)
pub fn idiom_loop_clean_chars(n: usize, chars: &[u32], heart: char) -> Vec<RCmd> {
    let mut v = idiom_loop_clean(n, false, heart);
    let mut ins = Vec::new();
    for &cp in chars {
        let cp = cp as usize;
        let h = (1..=64usize).rev().find(|h| cp % h == 0).unwrap_or(1);
        ins.push(c(0, h, cp / h));
        ins.push(c(1, 1, 1));
    }
    // after the loop head (value push + label), before the countdown
    let tail = v.split_off(2);
    v.extend(ins);
    v.extend(tail);
    v
}

/// select stack 0 and copy `k` characters to stdout (`via` = how)
pub fn idiom_read(k: usize, via: u8) -> Vec<RCmd> {
    let mut v = vec![c(5, 1, 0)];
    for _ in 0..k {
        match via % 3 {
            0 => v.push(c(1, 1, 1)),
            1 => v.push(c(2, 1, 1)),
            _ => {
                v.push(c(5, 1, 0)); // dup on stack 0
                v.push(c(1, 1, 1));
                v.push(c(1, 1, 2));
            }
        }
    }
    v
}

/// print the value h*d as a character and as a number
pub fn idiom_print(h: usize, d: usize) -> Vec<RCmd> {
    vec![c(0, h, d), c(5, 2, 3), c(1, 1, 1), c(3, 1, 1), c(1, 1, 4)]
}

/// leave through stack 1 or 2
pub fn idiom_exit(which: usize) -> Vec<RCmd> {
    vec![c(5, 1, which), c(1, 1, 3)]
}

/// build a fraction and compare it against a count with `?`
pub fn idiom_fraction(p: usize, q: usize, cnt_h: usize, cnt_d: usize) -> Vec<RCmd> {
    // p ; q ; 흡 (1/q back on the stack) ; 하앗 (p * 1/q) ; dup ; 형 with area? no: compare via 항 cnt?♥
    vec![
        c(0, 1, p),
        c(0, 1, q),
        c(4, 1, 4),
        c(2, 2, 3),
        c(5, 1, 3),
        ca(1, cnt_h, cnt_d.max(1), "♥?💖"),
        c(5, 1, 3),
        c(3, 1, 1),
    ]
}

/// push to a never-selected stack `t`, select stack `s` late, then jump back (same label) into code that pops:
/// the pops after the jump happen on stack `s` although the text "before" the 흑 ran on stack 3
pub fn idiom_late_select(s: usize, t: usize, heart: char, cond: u8, print_kind: u8) -> Vec<RCmd> {
    let hs = heart.to_string();
    let back = match cond % 4 {
        0 => hs.clone(),
        1 => format!("?{}", hs),
        2 => format!("{}!", hs),
        _ => format!("!{}", hs),
    };
    let printer = match print_kind % 3 {
        0 => c(3, 1, 1),
        1 => c(1, 1, 1),
        _ => c(4, 1, 2),
    };
    vec![c(0, 1, 1), c(0, 1, 2), ca(1, 1, t, &hs), printer, c(5, 1, s), ca(0, 1, t, &back)]
}

/// values parked on two stacks above 3, then popped again through a 형 area / the selecting 흑's own area
pub fn idiom_two_stacks(s: usize, t: usize, a: usize, b: usize, shape: u8) -> Vec<RCmd> {
    let area = ["?♥?💖", "!♥!💖", "?!♥", "!?💖", "?", "!"][shape as usize % 6];
    vec![
        c(0, 1, a),
        c(1, 1, t),
        c(0, 1, b),
        c(0, 1, b + 1),
        ca(5, 2, s, area),
        ca(0, 1, a, area),
        c(5, 1, 3),
        c(3, 1, 1),
    ]
}

pub fn idiom() -> BoxedStrategy<Vec<RCmd>> {
    let hearts = prop::sample::select(vec!['♥', '💖', '💚']);
    prop_oneof![
        4 => (prop::sample::select(vec![2usize, 5, 17, 98, 99, 100, 101, 102, 103, 150, 240]), any::<bool>(), hearts).prop_map(|(n, p, h)| idiom_loop(n, p, h)),
        4 => (0usize..6, 0u8..3).prop_map(|(k, via)| idiom_read(k, via)),
        2 => (1usize..12, 1usize..12).prop_map(|(h, d)| idiom_print(h, d)),
        1 => (1usize..=2).prop_map(idiom_exit),
        3 => (4usize..=8, 4usize..=8, prop::sample::select(vec!['♥', '💖', '💚']), 0u8..4, 0u8..3).prop_map(|(s, t, h, cnd, pk)| idiom_late_select(s, if t == s { t + 1 } else { t }, h, cnd, pk)),
        2 => (4usize..=8, 4usize..=8, 0usize..6, 0usize..6, 0u8..6).prop_map(|(s, t, a, b, sh)| idiom_two_stacks(s, if t == s { t + 1 } else { t }, a, b, sh)),
        3 => (1usize..9, 1usize..9, 1usize..3, 0usize..4).prop_map(|(p, q, a, b)| idiom_fraction(p, q, a, b)),
    ]
    .boxed()
}

pub fn program(p: &Profile) -> BoxedStrategy<Vec<RCmd>> {
    let max_len = p.max_len;
    let base = prop::collection::vec(cmd(p), 0..=max_len);
    if !p.idioms {
        return base.boxed();
    }
    let select0 = p.select0;
    (base, prop::collection::vec((idiom(), any::<u16>()), 0..=2), 0u8..10)
        .prop_map(move |(mut cmds, idioms, mode)| {
            if mode < 4 {
                return cmds; // pure random program
            }
            for (seq, at) in idioms {
                if !select0 && seq.iter().any(|c| c.kind == 5 && c.d == 0) {
                    continue;
                }
                let pos = ((at as usize) * (cmds.len() + 1)) >> 16;
                let tail = cmds.split_off(pos);
                cmds.extend(seq);
                cmds.extend(tail);
            }
            cmds.truncate(max_len.max(12));
            cmds
        })
        .boxed()
}

/// program with deliberately colliding labels: a later command carries the same (count, heart) as an earlier one
pub fn program_with_jumps(p: &Profile) -> BoxedStrategy<Vec<RCmd>> {
    let pair = (any::<u16>(), any::<u16>(), 0u8..6, 0u8..6, 1usize..=3, 0usize..=4, 0usize..HEART_SET.len() - 1, 0usize..7, any::<bool>());
    (program(p), prop::collection::vec(pair, 0..=2))
        .prop_map(|(mut cmds, pairs)| {
            for (a, b, k1, k2, h, d, heart, shape, swap_hd) in pairs {
                let hc = crate::refparse::heart_char(HEART_SET[heart]);
                let first_area = ["H", "H", "H", "?H", "H!", "H?H", "!H"][shape % 7].replace('H', &hc.to_string());
                let second_area = ["H", "?H", "H?", "!H", "H!", "H?♡", "?H!♡"][shape].replace('H', &hc.to_string());
                let p1 = ((a as usize) * (cmds.len() + 1)) >> 16;
                let (h2, d2) = if swap_hd && d >= 1 { (d, h) } else { (h, d) };
                let fix = |k: u8, dd: usize| if k == 5 && dd < 3 { 3 } else { dd };
                cmds.insert(p1, RCmd::with_area(k1, h, fix(k1, d), parse_shape(&first_area).unwrap()));
                let span = cmds.len() - p1;
                let p2 = p1 + 1 + (((b as usize) * span) >> 16);
                // keep the count equal: h2*d2 == h*d unless `fix` had to move d (then the label simply does not collide)
                cmds.insert(p2.min(cmds.len()), RCmd::with_area(k2, h2.max(1), fix(k2, d2), parse_shape(&second_area).unwrap()));
            }
            cmds
        })
        .boxed()
}

// ---------------------------------------------------------------------------------------------
// stdin texts

pub fn input_char() -> impl Strategy<Value = char> {
    prop_oneof![
        10 => prop::sample::select(vec!['a', 'b', 'Z', '0', '1', '9', ' ', '-', '!']),
        3 => prop::sample::select(vec!['한', '글', '형', 'é', 'ß', '€']),
        2 => prop::sample::select(vec!['😀', '💖', '\u{10FFFF}', '\u{10000}']),
        1 => Just('\u{0}'),
        1 => Just('\r'),
        1 => Just('\t'),
        1 => prop::sample::select(vec!['\u{7f}', '\u{80}', '\u{7ff}', '\u{800}', '\u{d7ff}', '\u{e000}', '\u{ffff}']),
    ]
}

pub fn stdin_text() -> BoxedStrategy<String> {
    let line = prop::collection::vec(input_char(), 0..8).prop_map(|v| v.into_iter().collect::<String>());
    let term = prop_oneof![5 => Just("\n"), 1 => Just("\r\n")];
    (prop::collection::vec((line, term), 0..5), any::<bool>(), 0u8..8)
        .prop_map(|(lines, cut_last, empty)| {
            if empty == 0 {
                return String::new();
            }
            let mut s = String::new();
            let n = lines.len();
            for (i, (l, t)) in lines.into_iter().enumerate() {
                s.push_str(&l);
                if !(cut_last && i + 1 == n) {
                    s.push_str(t);
                }
            }
            s
        })
        .boxed()
}

// ---------------------------------------------------------------------------------------------

#[derive(Clone, Debug, PartialEq, Eq, Hash)]
pub struct ProgCase {
    pub cmds: Vec<RCmd>,
    pub stdin: String,
}

impl ProgCase {
    pub fn text(&self) -> String {
        render_canonical(&self.cmds)
    }
    pub fn mcmds(&self) -> Vec<MCmd> {
        self.cmds.iter().map(MCmd::from_rcmd).collect()
    }
    pub fn to_json(&self) -> Value {
        json!({"program": self.text(), "cmds": self.cmds.iter().map(|c| c.to_json()).collect::<Vec<_>>(), "stdin": self.stdin})
    }
    pub fn from_json(v: &Value) -> Option<ProgCase> {
        let cmds = v.get("cmds")?.as_array()?.iter().map(RCmd::from_json).collect::<Option<Vec<_>>>()?;
        Some(ProgCase { cmds, stdin: v.get("stdin")?.as_str()?.to_string() })
    }
}

pub fn prog_case(p: &Profile) -> BoxedStrategy<ProgCase> {
    (program_with_jumps(p), stdin_text()).prop_map(|(cmds, stdin)| ProgCase { cmds, stdin }).boxed()
}

pub fn cmds_json(cmds: &[RCmd]) -> Value {
    json!({"program": render_canonical(cmds), "cmds": cmds.iter().map(|c| c.to_json()).collect::<Vec<_>>()})
}

pub fn shape_json(a: &AreaShape) -> Value {
    json!(shape_text(a))
}
