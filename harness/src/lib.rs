pub mod engine;
pub mod numgen;
pub mod props;
pub mod refnum;
pub mod refparse;
