pub mod engine;
pub mod gen;
pub mod numgen;
pub mod proc;
pub mod props;
pub mod refexec;
pub mod refnum;
pub mod refparse;
