//! Byte-level decoders shared by the libFuzzer targets (/verif/fuzz) and by `hv replay` on raw artifacts:
//! bytes -> structured case -> the same check functions the proptest search uses.

use crate::engine::{CheckResult, Stats};
use crate::gen::ProgCase;
use crate::numgen::{Big, Expr, Leaf};
use crate::props::{c01, c04, c05, c06, c07, c08, c09};
use crate::refparse::{parse_shape, RCmd};

struct Bytes<'a> {
    d: &'a [u8],
    i: usize,
}

impl<'a> Bytes<'a> {
    fn u8(&mut self) -> u8 {
        let b = self.d.get(self.i).copied().unwrap_or(0);
        self.i += 1;
        b
    }
    fn u32(&mut self) -> u32 {
        u32::from_le_bytes([self.u8(), self.u8(), self.u8(), self.u8()])
    }
    fn left(&self) -> usize {
        self.d.len().saturating_sub(self.i)
    }
    fn rest(&mut self) -> &'a [u8] {
        let r = &self.d[self.i.min(self.d.len())..];
        self.i = self.d.len();
        r
    }
}

const AREAS: [&str; 24] = [
    "", "", "", "", "", "", "♥", "💖", "♡", "?", "!", "?♥", "♥?", "!♥", "♥!", "♥?♡", "?♥!♡", "💖!♥?", "♡?💖!", "?!?", "♥!💖?♡", "??♥", "!!💖", "💚?💚",
];

fn limb(b: &mut Bytes) -> u32 {
    match b.u8() % 10 {
        0 => 0,
        1 => 1,
        2 => 0x8000_0000,
        3 => 0xFFFF_FFFE,
        4 | 5 => 0xFFFF_FFFF,
        6 => b.u8() as u32,
        _ => b.u32(),
    }
}

fn big(b: &mut Bytes, max: usize) -> Big {
    let n = 1 + (b.u8() as usize % max);
    let neg = b.u8() % 2 == 1;
    Big { neg, limbs: (0..n).map(|_| limb(b)).collect() }
}

fn leaf(b: &mut Bytes) -> Leaf {
    match b.u8() % 12 {
        0 => Leaf::NaN,
        1 => Leaf::FlipZero,
        2 => Leaf::NegNaN,
        3 => Leaf::Zero,
        4 => Leaf::One,
        5 => Leaf::Int(b.u8() as i8 as isize),
        6 => Leaf::New { up: b.u8() as i8 as isize, down: 1 + (b.u8() as usize % 30) },
        _ => {
            let p = big(b, 3);
            let mut q = big(b, 3);
            q.neg = false;
            if q.is_zero() {
                q.limbs = vec![1];
            }
            let mut k = if b.u8() % 2 == 0 { Big { neg: false, limbs: vec![1] } } else { big(b, 2) };
            k.neg = false;
            if k.is_zero() {
                k.limbs = vec![1];
            }
            Leaf::Frac { p, q, k }
        }
    }
}

fn expr(b: &mut Bytes, depth: u32) -> Expr {
    if depth == 0 || b.left() < 4 {
        return Expr::L(leaf(b));
    }
    match b.u8() % 10 {
        0 | 1 => Expr::Add(Box::new(expr(b, depth - 1)), Box::new(expr(b, depth - 1))),
        2 | 3 => Expr::Mul(Box::new(expr(b, depth - 1)), Box::new(expr(b, depth - 1))),
        4 => Expr::AddAssign(Box::new(expr(b, depth - 1)), Box::new(expr(b, depth - 1))),
        5 => Expr::MulAssign(Box::new(expr(b, depth - 1)), Box::new(expr(b, depth - 1))),
        6 => Expr::Neg(Box::new(expr(b, depth - 1))),
        7 => Expr::Minus(Box::new(expr(b, depth - 1))),
        8 => Expr::Flip(Box::new(expr(b, depth - 1))),
        _ => Expr::L(leaf(b)),
    }
}

fn program(b: &mut Bytes) -> ProgCase {
    let n = b.u8() as usize % 24;
    let mut cmds = Vec::new();
    for _ in 0..n {
        let k = b.u8();
        let hd = b.u8();
        let a = b.u8();
        let kind = k % 6;
        let h = match hd >> 4 {
            0..=7 => 1,
            8..=11 => 2,
            12 | 13 => 3,
            14 => 4 + (k as usize >> 5),
            _ => 33,
        };
        let d = match hd & 15 {
            x @ 0..=9 => x as usize,
            10 => 11,
            11 => 13,
            12 => 33,
            13 => 65,
            14 => 100,
            _ => 1000,
        };
        cmds.push(RCmd { kind, h, d, area: parse_shape(AREAS[a as usize % AREAS.len()]).unwrap() });
    }
    let stdin = String::from_utf8_lossy(b.rest()).into_owned();
    ProgCase { cmds, stdin }
}

/// run one fuzz input through the oracle of `target`
pub fn run(target: &str, data: &[u8]) -> CheckResult {
    let mut st = Stats::new();
    match target {
        "fz_c04" => {
            let text = String::from_utf8_lossy(data).into_owned();
            c04::compare(&text, None)?;
            c08::check_with(None, &c08::Case8::Reparse { text }, &mut st)
        }
        "fz_c01" => {
            let mut b = Bytes { d: data, i: 0 };
            let case = program(&mut b);
            let cfg = c01::Cfg { budget: 200, size_cap9: 7, cli: false };
            c01::check(&c01::Case1(case), &mut st, &cfg, std::path::Path::new("/nonexistent"), std::path::Path::new("/nonexistent"))
        }
        "fz_num" => {
            let mut b = Bytes { d: data, i: 0 };
            match b.u8() % 5 {
                0 => {
                    let (x, y) = (big(&mut b, 6), big(&mut b, 6));
                    c05::check(&c05::Case5::Pair { a: x, b: y }, &mut st, crate::engine::Tier::Quick)
                }
                1 => {
                    let e = expr(&mut b, 2);
                    let other = expr(&mut b, 1);
                    c06::check(&c06::Case6 { e, other }, &mut st)
                }
                2 => {
                    let x = expr(&mut b, 1);
                    let y = expr(&mut b, 1);
                    c07::check(&c07::Case7::Pair { x, y }, &mut st)
                }
                3 => {
                    let v = big(&mut b, 6);
                    let base = 2 + (b.u8() as u32 % 35);
                    c09::check(&c09::Case9::Int { v, base }, &mut st)
                }
                _ => {
                    let e = expr(&mut b, 2);
                    c09::check(&c09::Case9::Rat { e }, &mut st)
                }
            }
        }
        other => Err(crate::engine::Failure::new("harness:fuzz", format!("unknown fuzz target {}", other))),
    }
}

/// which fuzz target serves a property (thorough tier)
pub fn target_for(id: &str) -> Option<&'static str> {
    match id {
        "C01" => Some("fz_c01"),
        "C04" | "C08" => Some("fz_c04"),
        "C05" | "C06" | "C07" | "C09" => Some("fz_num"),
        _ => None,
    }
}
