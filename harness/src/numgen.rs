//! Generators and conversions for the number properties (C05, C06, C07, C09).

use crate::refnum::{RefInt, RefRat};
use hyeong::number::big_number::BigNum;
use hyeong::number::num::Num;
use proptest::prelude::*;
use serde_json::{json, Value};

/// a big integer as generated: sign + little-endian 32-bit limbs (may carry leading zero limbs)
#[derive(Clone, Debug, PartialEq, Eq, Hash)]
pub struct Big {
    pub neg: bool,
    pub limbs: Vec<u32>,
}

impl Big {
    pub fn to_ref(&self) -> RefInt {
        RefInt::from_limbs(self.neg, &self.limbs)
    }
    pub fn to_impl(&self) -> BigNum {
        let mut b = BigNum::from_vec(self.limbs.clone());
        if self.neg {
            b.minus();
        }
        b
    }
    pub fn from_ref(r: &RefInt) -> Big {
        let (neg, limbs) = r.to_limbs();
        Big { neg, limbs }
    }
    pub fn to_json(&self) -> Value {
        json!({"neg": self.neg, "limbs": self.limbs, "dec": self.to_ref().to_dec()})
    }
    pub fn from_json(v: &Value) -> Option<Big> {
        let neg = v.get("neg")?.as_bool()?;
        let limbs = v.get("limbs")?.as_array()?.iter().map(|x| x.as_u64().map(|y| y as u32)).collect::<Option<Vec<u32>>>()?;
        if limbs.is_empty() {
            return None;
        }
        Some(Big { neg, limbs })
    }
    pub fn is_zero(&self) -> bool {
        self.limbs.iter().all(|&l| l == 0)
    }
    pub fn has_boundary_limb(&self) -> bool {
        self.limbs.iter().any(|&l| matches!(l, 0 | 1 | 0x8000_0000 | 0xFFFF_FFFE | 0xFFFF_FFFF))
    }
    pub fn sig_limbs(&self) -> usize {
        let mut n = self.limbs.len();
        while n > 1 && self.limbs[n - 1] == 0 {
            n -= 1;
        }
        n
    }
}

/// build the implementation value that *should* equal the reference value, without using
/// the implementation's arithmetic (from_vec + minus only)
pub fn impl_from_ref(r: &RefInt) -> BigNum {
    Big::from_ref(r).to_impl()
}

pub fn limb() -> impl Strategy<Value = u32> {
    prop_oneof![
        3 => Just(0u32),
        3 => Just(1u32),
        2 => Just(0x8000_0000u32),
        2 => Just(0xFFFF_FFFEu32),
        4 => Just(0xFFFF_FFFFu32),
        1 => Just(2u32),
        1 => Just(0x7FFF_FFFFu32),
        1 => Just(0x8000_0001u32),
        2 => 0u32..1000,
        8 => any::<u32>(),
    ]
}

pub fn limbs(max: usize) -> impl Strategy<Value = Vec<u32>> {
    prop::collection::vec(limb(), 1..=max)
}

pub fn big(max: usize) -> impl Strategy<Value = Big> {
    (any::<bool>(), limbs(max)).prop_map(|(neg, limbs)| Big { neg, limbs })
}

/// non-zero big with non-zero top limb
pub fn big_nonzero(max: usize) -> impl Strategy<Value = Big> {
    big(max).prop_map(|mut b| {
        let n = b.limbs.len();
        if b.limbs[n - 1] == 0 {
            b.limbs[n - 1] = 1;
        }
        b
    })
}

pub fn small_isize() -> impl Strategy<Value = isize> {
    prop_oneof![
        4 => -20isize..=20,
        1 => -100000isize..=100000,
    ]
}

// ---------------------------------------------------------------------------------------------
// rationals

/// how a rational leaf is constructed on the implementation side
#[derive(Clone, Debug, PartialEq, Eq, Hash)]
pub enum Leaf {
    /// Num::from_big_num(p*k, q*k), q > 0, k > 0
    Frac { p: Big, q: Big, k: Big },
    /// Num::new(up, down), down > 0
    New { up: isize, down: usize },
    /// Num::from_num(n)
    Int(isize),
    Zero,
    One,
    NaN,
    /// flip of zero (NaN produced by arithmetic)
    FlipZero,
    /// -NaN (NaN whose internal numerator is negative)
    NegNaN,
}

impl Leaf {
    pub fn to_ref(&self) -> RefRat {
        match self {
            Leaf::Frac { p, q, k } => {
                let k = k.to_ref();
                RefRat::new(p.to_ref().mul(&k), q.to_ref().mul(&k))
            }
            Leaf::New { up, down } => RefRat::new(RefInt::from_i128(*up as i128), RefInt::from_i128(*down as i128)),
            Leaf::Int(n) => RefRat::int(*n as i128),
            Leaf::Zero => RefRat::zero(),
            Leaf::One => RefRat::one(),
            Leaf::NaN | Leaf::FlipZero | Leaf::NegNaN => RefRat::NaN,
        }
    }
    pub fn to_impl(&self) -> Num {
        match self {
            Leaf::Frac { p, q, k } => {
                let k = k.to_ref();
                let up = impl_from_ref(&p.to_ref().mul(&k));
                let down = impl_from_ref(&q.to_ref().mul(&k));
                Num::from_big_num(up, down)
            }
            Leaf::New { up, down } => Num::new(*up, *down),
            Leaf::Int(n) => Num::from_num(*n),
            Leaf::Zero => Num::zero(),
            Leaf::One => Num::one(),
            Leaf::NaN => Num::nan(),
            Leaf::FlipZero => {
                let mut z = Num::zero();
                z.flip();
                z
            }
            Leaf::NegNaN => -&Num::nan(),
        }
    }
    pub fn to_json(&self) -> Value {
        match self {
            Leaf::Frac { p, q, k } => json!({"t":"frac","p":p.to_json(),"q":q.to_json(),"k":k.to_json(), "value": self.to_ref().text()}),
            Leaf::New { up, down } => json!({"t":"new","up":*up as i64,"down":*down as u64}),
            Leaf::Int(n) => json!({"t":"int","n":*n as i64}),
            Leaf::Zero => json!({"t":"zero"}),
            Leaf::One => json!({"t":"one"}),
            Leaf::NaN => json!({"t":"nan"}),
            Leaf::FlipZero => json!({"t":"flipzero"}),
            Leaf::NegNaN => json!({"t":"negnan"}),
        }
    }
    pub fn from_json(v: &Value) -> Option<Leaf> {
        Some(match v.get("t")?.as_str()? {
            "frac" => Leaf::Frac { p: Big::from_json(v.get("p")?)?, q: Big::from_json(v.get("q")?)?, k: Big::from_json(v.get("k")?)? },
            "new" => Leaf::New { up: v.get("up")?.as_i64()? as isize, down: v.get("down")?.as_u64()? as usize },
            "int" => Leaf::Int(v.get("n")?.as_i64()? as isize),
            "zero" => Leaf::Zero,
            "one" => Leaf::One,
            "nan" => Leaf::NaN,
            "flipzero" => Leaf::FlipZero,
            "negnan" => Leaf::NegNaN,
            _ => return None,
        })
    }
    pub fn multi_limb(&self) -> bool {
        match self {
            Leaf::Frac { p, q, k } => p.sig_limbs() + k.sig_limbs() > 2 || q.sig_limbs() + k.sig_limbs() > 2,
            _ => false,
        }
    }
    pub fn has_common_factor(&self) -> bool {
        match self {
            Leaf::Frac { k, .. } => k.to_ref() != RefInt::one(),
            Leaf::New { up, down } => RefInt::from_i128(*up as i128).gcd(&RefInt::from_i128(*down as i128)) != RefInt::one(),
            _ => false,
        }
    }
}

fn pos_big(max: usize) -> impl Strategy<Value = Big> {
    big_nonzero(max).prop_map(|mut b| {
        b.neg = false;
        b
    })
}

/// common factor: 1 half of the time, otherwise small or multi-limb with boundary limbs
fn factor(max: usize) -> impl Strategy<Value = Big> {
    prop_oneof![
        5 => Just(Big { neg: false, limbs: vec![1] }),
        3 => (2u32..50).prop_map(|k| Big { neg: false, limbs: vec![k] }),
        4 => pos_big(max),
    ]
}

pub fn leaf(max: usize) -> impl Strategy<Value = Leaf> {
    prop_oneof![
        10 => (big(max), pos_big(max), factor(max)).prop_map(|(p, q, k)| Leaf::Frac { p, q, k }),
        // small fractions built from small limbs (dense collisions / equal values)
        5 => (-30i64..=30, 1u32..=12, 1u32..=6).prop_map(|(p, q, k)| Leaf::Frac {
            p: Big { neg: p < 0, limbs: vec![p.unsigned_abs() as u32] },
            q: Big { neg: false, limbs: vec![q] },
            k: Big { neg: false, limbs: vec![k] },
        }),
        3 => (small_isize(), 1usize..=24).prop_map(|(up, down)| Leaf::New { up, down }),
        3 => small_isize().prop_map(Leaf::Int),
        1 => any::<i64>().prop_map(|n| Leaf::Int(n as isize)),
        1 => Just(Leaf::Zero),
        1 => Just(Leaf::One),
        1 => Just(Leaf::NaN),
        1 => Just(Leaf::FlipZero),
        1 => Just(Leaf::NegNaN),
    ]
}

/// leaf that is never NaN
pub fn finite_leaf(max: usize) -> impl Strategy<Value = Leaf> {
    leaf(max).prop_map(|l| match l {
        Leaf::NaN | Leaf::FlipZero | Leaf::NegNaN => Leaf::Int(-3),
        o => o,
    })
}

/// expression over rationals
#[derive(Clone, Debug, PartialEq, Eq, Hash)]
pub enum Expr {
    L(Leaf),
    Add(Box<Expr>, Box<Expr>),
    Mul(Box<Expr>, Box<Expr>),
    /// `-&x`
    Neg(Box<Expr>),
    /// in-place `minus()`
    Minus(Box<Expr>),
    /// in-place `flip()`
    Flip(Box<Expr>),
    /// `a += &b`
    AddAssign(Box<Expr>, Box<Expr>),
    /// `a *= &b`
    MulAssign(Box<Expr>, Box<Expr>),
}

impl Expr {
    pub fn eval_ref(&self) -> RefRat {
        match self {
            Expr::L(l) => l.to_ref(),
            Expr::Add(a, b) | Expr::AddAssign(a, b) => a.eval_ref().add(&b.eval_ref()),
            Expr::Mul(a, b) | Expr::MulAssign(a, b) => a.eval_ref().mul(&b.eval_ref()),
            Expr::Neg(a) | Expr::Minus(a) => a.eval_ref().neg(),
            Expr::Flip(a) => a.eval_ref().recip(),
        }
    }
    pub fn eval_impl(&self) -> Num {
        match self {
            Expr::L(l) => l.to_impl(),
            Expr::Add(a, b) => &a.eval_impl() + &b.eval_impl(),
            Expr::Mul(a, b) => &a.eval_impl() * &b.eval_impl(),
            Expr::Neg(a) => -&a.eval_impl(),
            Expr::Minus(a) => {
                let mut x = a.eval_impl();
                x.minus();
                x
            }
            Expr::Flip(a) => {
                let mut x = a.eval_impl();
                x.flip();
                x
            }
            Expr::AddAssign(a, b) => {
                let mut x = a.eval_impl();
                x += &b.eval_impl();
                x
            }
            Expr::MulAssign(a, b) => {
                let mut x = a.eval_impl();
                x *= &b.eval_impl();
                x
            }
        }
    }
    /// an equivalent expression computed along a different route
    pub fn rewrite(&self) -> Expr {
        match self {
            Expr::L(Leaf::Frac { p, q, k }) => {
                // same value, other representation: drop the common factor or scale by 3
                if k.to_ref() != RefInt::one() {
                    Expr::L(Leaf::Frac { p: p.clone(), q: q.clone(), k: Big { neg: false, limbs: vec![1] } })
                } else {
                    Expr::L(Leaf::Frac { p: p.clone(), q: q.clone(), k: Big { neg: false, limbs: vec![3] } })
                }
            }
            Expr::L(l) => Expr::L(l.clone()),
            Expr::Add(a, b) | Expr::AddAssign(a, b) => Expr::Add(Box::new(b.rewrite()), Box::new(a.rewrite())),
            Expr::Mul(a, b) | Expr::MulAssign(a, b) => Expr::Mul(Box::new(b.rewrite()), Box::new(a.rewrite())),
            Expr::Neg(a) | Expr::Minus(a) => Expr::Mul(Box::new(Expr::L(Leaf::Int(-1))), Box::new(a.rewrite())),
            Expr::Flip(a) => Expr::Flip(Box::new(a.rewrite())),
        }
    }
    pub fn to_json(&self) -> Value {
        match self {
            Expr::L(l) => json!({"leaf": l.to_json()}),
            Expr::Add(a, b) => json!({"add": [a.to_json(), b.to_json()]}),
            Expr::Mul(a, b) => json!({"mul": [a.to_json(), b.to_json()]}),
            Expr::Neg(a) => json!({"neg": a.to_json()}),
            Expr::Minus(a) => json!({"minus": a.to_json()}),
            Expr::Flip(a) => json!({"flip": a.to_json()}),
            Expr::AddAssign(a, b) => json!({"add_assign": [a.to_json(), b.to_json()]}),
            Expr::MulAssign(a, b) => json!({"mul_assign": [a.to_json(), b.to_json()]}),
        }
    }
    pub fn from_json(v: &Value) -> Option<Expr> {
        let o = v.as_object()?;
        let (k, x) = o.iter().next()?;
        let two = |x: &Value| -> Option<(Box<Expr>, Box<Expr>)> {
            let a = x.as_array()?;
            Some((Box::new(Expr::from_json(a.first()?)?), Box::new(Expr::from_json(a.get(1)?)?)))
        };
        Some(match k.as_str() {
            "leaf" => Expr::L(Leaf::from_json(x)?),
            "add" => {
                let (a, b) = two(x)?;
                Expr::Add(a, b)
            }
            "mul" => {
                let (a, b) = two(x)?;
                Expr::Mul(a, b)
            }
            "add_assign" => {
                let (a, b) = two(x)?;
                Expr::AddAssign(a, b)
            }
            "mul_assign" => {
                let (a, b) = two(x)?;
                Expr::MulAssign(a, b)
            }
            "neg" => Expr::Neg(Box::new(Expr::from_json(x)?)),
            "minus" => Expr::Minus(Box::new(Expr::from_json(x)?)),
            "flip" => Expr::Flip(Box::new(Expr::from_json(x)?)),
            _ => return None,
        })
    }
    pub fn ops(&self) -> usize {
        match self {
            Expr::L(_) => 0,
            Expr::Add(a, b) | Expr::Mul(a, b) | Expr::AddAssign(a, b) | Expr::MulAssign(a, b) => 1 + a.ops() + b.ops(),
            Expr::Neg(a) | Expr::Minus(a) | Expr::Flip(a) => 1 + a.ops(),
        }
    }
    pub fn leaves(&self, out: &mut Vec<Leaf>) {
        match self {
            Expr::L(l) => out.push(l.clone()),
            Expr::Add(a, b) | Expr::Mul(a, b) | Expr::AddAssign(a, b) | Expr::MulAssign(a, b) => {
                a.leaves(out);
                b.leaves(out);
            }
            Expr::Neg(a) | Expr::Minus(a) | Expr::Flip(a) => a.leaves(out),
        }
    }
}

pub fn expr(max_limbs: usize, depth: u32) -> impl Strategy<Value = Expr> {
    let l = leaf(max_limbs).prop_map(Expr::L);
    l.prop_recursive(depth, 12, 2, |inner| {
        prop_oneof![
            3 => (inner.clone(), inner.clone()).prop_map(|(a, b)| Expr::Add(Box::new(a), Box::new(b))),
            3 => (inner.clone(), inner.clone()).prop_map(|(a, b)| Expr::Mul(Box::new(a), Box::new(b))),
            1 => (inner.clone(), inner.clone()).prop_map(|(a, b)| Expr::AddAssign(Box::new(a), Box::new(b))),
            1 => (inner.clone(), inner.clone()).prop_map(|(a, b)| Expr::MulAssign(Box::new(a), Box::new(b))),
            1 => inner.clone().prop_map(|a| Expr::Neg(Box::new(a))),
            1 => inner.clone().prop_map(|a| Expr::Minus(Box::new(a))),
            2 => inner.clone().prop_map(|a| Expr::Flip(Box::new(a))),
        ]
    })
}
