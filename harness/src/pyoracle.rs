//! Second, fully independent oracle: python3 integers / fractions re-compute sampled records
//! (a) of the reference arithmetic itself (root of trust for RefInt/RefRat), and
//! (b) of the implementation under test (BigNum / Num), in the thorough tier.

use crate::numgen::{impl_from_ref, Big};
use crate::refnum::{RefInt, RefRat};
use hyeong::number::big_number::BigNum;
use hyeong::number::num::Num;
use std::fmt::Write as _;
use std::path::Path;

struct Rng(u64);
impl Rng {
    fn next(&mut self) -> u64 {
        self.0 ^= self.0 << 13;
        self.0 ^= self.0 >> 7;
        self.0 ^= self.0 << 17;
        self.0
    }
    fn limb(&mut self) -> u32 {
        match self.next() % 12 {
            0 => 0,
            1 => 1,
            2 => 0x8000_0000,
            3 => 0xFFFF_FFFE,
            4 | 5 => 0xFFFF_FFFF,
            6 => (self.next() % 1000) as u32,
            _ => self.next() as u32,
        }
    }
    fn big(&mut self, max: usize) -> Big {
        let n = 1 + (self.next() as usize % max);
        let limbs = (0..n).map(|_| self.limb()).collect();
        Big { neg: self.next() % 2 == 0, limbs }
    }
}

fn rat_text(r: &RefRat) -> String {
    if r.is_nan() {
        "NaN".to_string()
    } else {
        r.text()
    }
}

fn num_text(n: &Num) -> String {
    if n.is_nan() {
        "NaN".to_string()
    } else {
        n.to_string()
    }
}

/// records computed by the reference arithmetic
pub fn reference_records(seed: u64, n: usize) -> String {
    let mut r = Rng(seed | 1);
    let mut s = String::new();
    for i in 0..n {
        let (a, b) = (r.big(6).to_ref(), r.big(if i % 3 == 0 { 2 } else { 6 }).to_ref());
        let (ad, bd) = (a.to_dec(), b.to_dec());
        let _ = writeln!(s, "add {} {} = {}", ad, bd, a.add(&b).to_dec());
        let _ = writeln!(s, "sub {} {} = {}", ad, bd, a.sub(&b).to_dec());
        let _ = writeln!(s, "mul {} {} = {}", ad, bd, a.mul(&b).to_dec());
        if !b.is_zero() {
            let (q, rem) = a.divrem_trunc(&b);
            let _ = writeln!(s, "div {} {} = {}", ad, bd, q.to_dec());
            let _ = writeln!(s, "rem {} {} = {}", ad, bd, rem.to_dec());
            let (q2, rem2) = a.divrem_trunc_slow(&b);
            let _ = writeln!(s, "div {} {} = {}", ad, bd, q2.to_dec());
            let _ = writeln!(s, "rem {} {} = {}", ad, bd, rem2.to_dec());
        }
        let _ = writeln!(s, "gcd {} {} = {}", ad, bd, a.gcd(&b).to_dec());
        let _ = writeln!(s, "cmp {} {} = {}", ad, bd, match a.cmp(&b) { std::cmp::Ordering::Less => -1, std::cmp::Ordering::Equal => 0, std::cmp::Ordering::Greater => 1 });
        let base = 2 + (r.next() % 35) as u32;
        let _ = writeln!(s, "radix {} {} = {}", ad, base, a.to_radix(base));
        let (neg, limbs) = a.to_limbs();
        let _ = writeln!(s, "limbs {} {} = {}", if neg { "-" } else { "+" }, limbs.iter().map(|l| l.to_string()).collect::<Vec<_>>().join(" "), ad);
        // rationals
        let mk = |r: &mut Rng| -> RefRat {
            match r.next() % 12 {
                0 => RefRat::NaN,
                1 => RefRat::zero(),
                _ => {
                    let p = r.big(3).to_ref();
                    let mut q = r.big(3).to_ref().abs();
                    if q.is_zero() {
                        q = RefInt::one();
                    }
                    RefRat::new(p, q)
                }
            }
        };
        let (x, y) = (mk(&mut r), mk(&mut r));
        let _ = writeln!(s, "radd {} {} = {}", rat_text(&x), rat_text(&y), rat_text(&x.add(&y)));
        let _ = writeln!(s, "rmul {} {} = {}", rat_text(&x), rat_text(&y), rat_text(&x.mul(&y)));
        let _ = writeln!(s, "rrecip {} = {}", rat_text(&x), rat_text(&x.recip()));
        let _ = writeln!(
            s,
            "rcmp {} {} = {}",
            rat_text(&x),
            rat_text(&y),
            match x.cmp(&y) {
                None => "none".to_string(),
                Some(std::cmp::Ordering::Less) => "-1".to_string(),
                Some(std::cmp::Ordering::Equal) => "0".to_string(),
                Some(std::cmp::Ordering::Greater) => "1".to_string(),
            }
        );
        if !x.is_nan() {
            let _ = writeln!(s, "rfloor {} = {}", rat_text(&x), x.floor().unwrap().to_dec());
        }
    }
    s
}

/// records computed by the implementation under test
pub fn implementation_records(seed: u64, n: usize) -> String {
    let mut r = Rng(seed | 1);
    let mut s = String::new();
    for i in 0..n {
        let (a, b) = (r.big(5), r.big(if i % 3 == 0 { 2 } else { 5 }));
        let (ra, rb) = (a.to_ref(), b.to_ref());
        let (ad, bd) = (ra.to_dec(), rb.to_dec());
        let (ia, ib) = (a.to_impl(), b.to_impl());
        let _ = writeln!(s, "add {} {} = {}", ad, bd, &ia + &ib);
        let _ = writeln!(s, "sub {} {} = {}", ad, bd, &ia - &ib);
        let _ = writeln!(s, "mul {} {} = {}", ad, bd, &ia * &ib);
        if !rb.is_zero() {
            let _ = writeln!(s, "div {} {} = {}", ad, bd, &ia / &ib);
            let _ = writeln!(s, "rem {} {} = {}", ad, bd, &ia % &ib);
        }
        let mut g = BigNum::gcd(&ia, &ib);
        if !g.is_pos() {
            g.minus();
        }
        let _ = writeln!(s, "gcd {} {} = {}", ad, bd, g);
        let _ = writeln!(s, "cmp {} {} = {}", ad, bd, match ia.partial_cmp(&ib) { Some(std::cmp::Ordering::Less) => "-1", Some(std::cmp::Ordering::Equal) => "0", Some(std::cmp::Ordering::Greater) => "1", None => "none" });
        let base = 2 + (r.next() % 35) as usize;
        let _ = writeln!(s, "radix {} {} = {}", ad, base, ia.to_string_base(base).unwrap_or_else(|e| format!("error:{}", e)));
        let mk = |r: &mut Rng| -> (Num, String) {
            match r.next() % 12 {
                0 => (Num::nan(), "NaN".to_string()),
                1 => (Num::zero(), "0".to_string()),
                _ => {
                    let p = r.big(3).to_ref();
                    let mut q = r.big(3).to_ref().abs();
                    if q.is_zero() {
                        q = RefInt::one();
                    }
                    let rr = RefRat::new(p.clone(), q.clone());
                    (Num::from_big_num(impl_from_ref(&p), impl_from_ref(&q)), rat_text(&rr))
                }
            }
        };
        let ((x, xt), (y, yt)) = (mk(&mut r), mk(&mut r));
        let _ = writeln!(s, "radd {} {} = {}", xt, yt, num_text(&(&x + &y)));
        let _ = writeln!(s, "rmul {} {} = {}", xt, yt, num_text(&(&x * &y)));
        let mut f = x.clone();
        f.flip();
        let _ = writeln!(s, "rrecip {} = {}", xt, num_text(&f));
        let _ = writeln!(s, "rcmp {} {} = {}", xt, yt, match x.partial_cmp(&y) { Some(std::cmp::Ordering::Less) => "-1", Some(std::cmp::Ordering::Equal) => "0", Some(std::cmp::Ordering::Greater) => "1", None => "none" });
        if x.is_pos() {
            let _ = writeln!(s, "rfloor {} = {}", xt, x.floor());
        }
    }
    s
}

/// run the python script on a record file; Ok(summary line) or Err(mismatch report)
pub fn run_python(verif: &Path, scratch: &Path, records: &str, name: &str) -> Result<String, String> {
    let file = scratch.join(format!("{}.records", name));
    std::fs::write(&file, records).map_err(|e| format!("harness: cannot write records: {}", e))?;
    let out = std::process::Command::new("python3")
        .arg(verif.join("tools/xcheck_refnum.py"))
        .arg(&file)
        .output()
        .map_err(|e| format!("harness: cannot run python3: {}", e))?;
    let text = String::from_utf8_lossy(&out.stdout).into_owned();
    let _ = std::fs::remove_file(&file);
    if out.status.success() {
        Ok(text.lines().last().unwrap_or("").to_string())
    } else {
        Err(format!("{}{}", text, String::from_utf8_lossy(&out.stderr)))
    }
}
