//! Process runner: real binary and compiled programs with piped stdin/stdout/stderr,
//! output caps, CPU limits and a wall-clock watchdog (expiry = inconclusive, never a violation).

use std::io::{Read, Write};
use std::os::unix::process::ExitStatusExt;
use std::path::{Path, PathBuf};
use std::process::{Command, Stdio};
use std::sync::atomic::{AtomicU64, Ordering};
use std::time::{Duration, Instant};

#[derive(Clone, Debug, PartialEq, Eq)]
pub enum Status {
    Code(i32),
    Signal(i32),
    /// wall-clock watchdog fired (harness trouble or a run that does not end)
    Timeout,
}

#[derive(Clone, Debug)]
pub struct Output {
    pub status: Status,
    pub stdout: Vec<u8>,
    pub stderr: Vec<u8>,
    pub stdout_truncated: bool,
    pub wall: Duration,
}

impl Output {
    pub fn out_str(&self) -> String {
        String::from_utf8_lossy(&self.stdout).into_owned()
    }
    pub fn err_str(&self) -> String {
        String::from_utf8_lossy(&self.stderr).into_owned()
    }
    pub fn panicked(&self) -> bool {
        self.status == Status::Code(101) || self.err_str().contains("panicked at") || matches!(self.status, Status::Signal(_))
    }
}

pub struct RunOpts<'a> {
    pub stdin: &'a [u8],
    pub wall: Duration,
    pub cpu_secs: Option<u64>,
    pub out_cap: usize,
    pub cwd: Option<&'a Path>,
}

impl<'a> RunOpts<'a> {
    pub fn new(stdin: &'a [u8]) -> RunOpts<'a> {
        RunOpts { stdin, wall: Duration::from_secs(60), cpu_secs: None, out_cap: 16 << 20, cwd: None }
    }
}

fn read_capped(mut r: impl Read, cap: usize) -> (Vec<u8>, bool) {
    let mut buf = Vec::new();
    let mut chunk = [0u8; 65536];
    let mut truncated = false;
    loop {
        match r.read(&mut chunk) {
            Ok(0) => break,
            Ok(n) => {
                if buf.len() < cap {
                    let take = n.min(cap - buf.len());
                    buf.extend_from_slice(&chunk[..take]);
                    if take < n {
                        truncated = true;
                    }
                } else {
                    truncated = true;
                }
            }
            Err(_) => break,
        }
    }
    (buf, truncated)
}

pub fn run(program: &Path, args: &[&str], opts: &RunOpts) -> std::io::Result<Output> {
    let mut cmd = Command::new(program);
    cmd.args(args).stdin(Stdio::piped()).stdout(Stdio::piped()).stderr(Stdio::piped());
    cmd.env("RUST_BACKTRACE", "0").env("NO_COLOR", "1").env("TERM", "dumb");
    if let Some(d) = opts.cwd {
        cmd.current_dir(d);
    }
    let t0 = Instant::now();
    let mut child = cmd.spawn()?;
    if let Some(cpu) = opts.cpu_secs {
        // set from outside right after the spawn: keeps Command on the fast posix_spawn path
        // (a pre_exec hook forces fork() of this large multi-threaded process)
        let lim = libc::rlimit { rlim_cur: cpu, rlim_max: cpu + 1 };
        unsafe {
            libc::prlimit(child.id() as libc::pid_t, libc::RLIMIT_CPU, &lim, std::ptr::null_mut());
        }
    }
    let mut stdin = child.stdin.take().unwrap();
    let stdout = child.stdout.take().unwrap();
    let stderr = child.stderr.take().unwrap();
    let cap = opts.out_cap;
    let input = opts.stdin.to_vec();
    let res = std::thread::scope(|s| {
        let w = s.spawn(move || {
            let _ = stdin.write_all(&input);
            drop(stdin);
        });
        let o = s.spawn(move || read_capped(stdout, cap));
        let e = s.spawn(move || read_capped(stderr, cap));
        // wait with watchdog
        let mut delay = Duration::from_micros(200);
        let status = loop {
            match child.try_wait() {
                Ok(Some(st)) => {
                    break match (st.code(), st.signal()) {
                        (Some(c), _) => Status::Code(c),
                        (None, Some(sig)) => Status::Signal(sig),
                        _ => Status::Signal(-1),
                    }
                }
                Ok(None) => {
                    if t0.elapsed() > opts.wall {
                        let _ = child.kill();
                        let _ = child.wait();
                        break Status::Timeout;
                    }
                    std::thread::sleep(delay);
                    if delay < Duration::from_millis(4) {
                        delay *= 2;
                    }
                }
                Err(_) => break Status::Signal(-2),
            }
        };
        let _ = w.join();
        let (out, trunc) = o.join().unwrap();
        let (err, _) = e.join().unwrap();
        Output { status, stdout: out, stderr: err, stdout_truncated: trunc, wall: t0.elapsed() }
    });
    Ok(res)
}

static COUNTER: AtomicU64 = AtomicU64::new(0);

/// a fresh file path inside the scratch directory
pub fn scratch_path(scratch: &Path, stem: &str, ext: &str) -> PathBuf {
    let n = COUNTER.fetch_add(1, Ordering::Relaxed);
    scratch.join(format!("{}-{}{}", stem, n, ext))
}

/// a fresh sub-directory inside the scratch directory
pub fn scratch_dir(scratch: &Path, stem: &str) -> PathBuf {
    let n = COUNTER.fetch_add(1, Ordering::Relaxed);
    let d = scratch.join(format!("{}-{}", stem, n));
    let _ = std::fs::create_dir_all(&d);
    d
}

/// `hyeong run -O<level> --color never FILE` with the program text written to a scratch file.
/// Returns the output with the tool's own log lines removed from stdout.
pub struct CliRun {
    pub raw: Output,
    /// stdout after removing the tool's log lines
    pub out: Vec<u8>,
    pub saw_running_line: bool,
}

/// The tool writes its own log lines (`==> parsing FILE`, `==> optimizing to level N`, `==> running code`) to stdout before the
/// program's output. Their wording is not part of any property, so it is *calibrated*: an empty program (no commands, no output) is
/// run once per level and whatever the tool prints for it, with the file path abstracted, is the template that is stripped later.
static LOG_TEMPLATES: std::sync::OnceLock<[Vec<String>; 3]> = std::sync::OnceLock::new();

fn default_templates() -> [Vec<String>; 3] {
    let l = |level: u8| {
        let mut v = vec!["==> parsing {path}\n".to_string()];
        if level >= 1 {
            v.push(format!("==> optimizing to level {}\n", level));
        }
        v.push("==> running code\n".to_string());
        v
    };
    [l(0), l(1), l(2)]
}

pub fn log_templates(bin: &Path, scratch: &Path) -> &'static [Vec<String>; 3] {
    LOG_TEMPLATES.get_or_init(|| {
        let mut t = default_templates();
        for level in 0u8..3 {
            let dir = scratch_dir(scratch, "calib");
            let file = dir.join("p.hyeong");
            if std::fs::write(&file, "").is_err() {
                continue;
            }
            let lvl = format!("-O{}", level);
            let r = run(bin, &["--color", "never", "run", &lvl, file.to_str().unwrap()], &RunOpts::new(b""));
            let _ = std::fs::remove_dir_all(&dir);
            if let Ok(r) = r {
                if r.status == Status::Code(0) {
                    if let Ok(text) = String::from_utf8(r.stdout) {
                        let p = file.to_str().unwrap();
                        t[level as usize] = text.split_inclusive('\n').map(|l| l.replace(p, "{path}")).collect();
                    }
                }
            }
        }
        t
    })
}

pub fn strip_log_lines_with(templates: &[Vec<String>; 3], stdout: &[u8], path: &Path, level: u8) -> (Vec<u8>, bool) {
    let lines = &templates[level.min(2) as usize];
    let p = path.to_str().unwrap_or("");
    let concrete: Vec<String> = lines.iter().map(|l| l.replace("{path}", p)).collect();
    // common prefix of the tool's log lines (`==> `): further informational log lines may carry run-specific text
    let mut prefix: String = concrete.first().cloned().unwrap_or_default();
    for l in &concrete {
        let n = prefix.chars().zip(l.chars()).take_while(|(a, b)| a == b).count();
        prefix = prefix.chars().take(n).collect();
    }
    let last = concrete.last().cloned().unwrap_or_default();
    if prefix.chars().count() >= 2 && !last.is_empty() {
        // 1. everything up to the last log line ("running code"), provided only log lines precede it
        let mut pos = 0usize;
        let mut ok = true;
        while pos < stdout.len() {
            let rest = &stdout[pos..];
            if rest.starts_with(last.as_bytes()) {
                return (rest[last.len()..].to_vec(), true);
            }
            if !rest.starts_with(prefix.as_bytes()) {
                ok = false;
                break;
            }
            match rest.iter().position(|&b| b == b'\n') {
                Some(n) => pos += n + 1,
                None => {
                    pos = stdout.len();
                }
            }
        }
        if ok {
            // 2. only log lines and the run ended before "running code" (error during optimisation)
            return (Vec::new(), false);
        }
        // log lines, then something else without the final log line: strip the leading log lines
        return (stdout[pos..].to_vec(), false);
    }
    // fallback: exact template lines, each optional
    let mut rest = stdout;
    let mut stripped = 0;
    for line in &concrete {
        if !line.is_empty() && rest.starts_with(line.as_bytes()) {
            rest = &rest[line.len()..];
            stripped += 1;
        } else {
            break;
        }
    }
    (rest.to_vec(), stripped == concrete.len())
}

pub fn strip_log_lines(stdout: &[u8], path: &Path, level: u8) -> (Vec<u8>, bool) {
    strip_log_lines_with(&default_templates(), stdout, path, level)
}

pub fn run_hyeong(bin: &Path, scratch: &Path, program_text: &str, level: u8, stdin: &[u8], opts_mod: impl FnOnce(&mut RunOpts)) -> std::io::Result<CliRun> {
    let dir = scratch_dir(scratch, "run");
    let file = dir.join("p.hyeong");
    std::fs::write(&file, program_text)?;
    let lvl = format!("-O{}", level);
    let mut opts = RunOpts::new(stdin);
    opts_mod(&mut opts);
    let raw = run(bin, &["--color", "never", "run", &lvl, file.to_str().unwrap()], &opts)?;
    let (out, saw) = strip_log_lines_with(log_templates(bin, scratch), &raw.stdout, &file, level);
    let _ = std::fs::remove_dir_all(&dir);
    Ok(CliRun { raw, out, saw_running_line: saw })
}
