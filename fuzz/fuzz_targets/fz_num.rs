#![no_main]
use libfuzzer_sys::fuzz_target;

fuzz_target!(|data: &[u8]| {
    if let Err(f) = hv::fuzzdecode::run("fz_num", data) {
        panic!("FUZZ-VIOLATION [{}] {}", f.sig, f.msg);
    }
});
