#!/usr/bin/env python3
"""Independent re-computation of arithmetic records with Python integers / fractions.
Input: lines `<op> <args...> = <result>`; exits 0 if all agree, 1 and prints the first mismatches otherwise."""
import sys
from fractions import Fraction
from math import gcd

NAN = "NaN"

def trunc_div(a, b):
    q = abs(a) // abs(b)
    return -q if (a < 0) != (b < 0) else q

def to_radix(n, base):
    if n == 0:
        return "0"
    digits = "0123456789ABCDEFGHIJKLMNOPQRSTUVWXYZ"
    m, s = abs(n), []
    while m:
        s.append(digits[m % base]); m //= base
    return ("-" if n < 0 else "") + "".join(reversed(s))

def rat(s):
    if s == NAN:
        return None
    if "/" in s:
        p, q = s.split("/")
        return Fraction(int(p), int(q))
    return Fraction(int(s))

def rat_text(f):
    if f is None:
        return NAN
    return str(f.numerator) if f.denominator == 1 else f"{f.numerator}/{f.denominator}"

def main(path):
    bad = 0
    n = 0
    for line in open(path, encoding="utf-8"):
        line = line.rstrip("\n")
        if not line:
            continue
        lhs, got = line.split(" = ")
        t = lhs.split(" ")
        op = t[0]
        n += 1
        try:
            if op in ("add", "sub", "mul", "div", "rem", "gcd", "cmp"):
                a, b = int(t[1]), int(t[2])
                if op == "add": want = str(a + b)
                elif op == "sub": want = str(a - b)
                elif op == "mul": want = str(a * b)
                elif op == "div": want = str(trunc_div(a, b))
                elif op == "rem": want = str(a - trunc_div(a, b) * b)
                elif op == "gcd": want = str(gcd(a, b))
                else: want = str((a > b) - (a < b))
            elif op == "radix":
                want = to_radix(int(t[1]), int(t[2]))
            elif op == "limbs":
                v = 0
                for l in reversed(t[2:]):
                    v = (v << 32) | int(l)
                want = str(-v if t[1] == "-" else v)
            elif op in ("radd", "rmul", "rcmp"):
                a, b = rat(t[1]), rat(t[2])
                if a is None or b is None:
                    want = NAN if op != "rcmp" else "none"
                elif op == "radd": want = rat_text(a + b)
                elif op == "rmul": want = rat_text(a * b)
                else: want = str((a > b) - (a < b))
            elif op == "rrecip":
                a = rat(t[1])
                want = NAN if a is None or a == 0 else rat_text(1 / a)
            elif op == "rfloor":
                a = rat(t[1])
                want = str(a.numerator // a.denominator)
            else:
                print("unknown op", op); bad += 1; continue
        except Exception as e:  # noqa
            print("error on", line, e); bad += 1; continue
        if want != got:
            bad += 1
            if bad <= 10:
                print(f"MISMATCH {lhs}: got {got} python says {want}")
    print(f"python cross-check: {n} records, {bad} mismatches")
    return 1 if bad else 0

if __name__ == "__main__":
    sys.exit(main(sys.argv[1]))
