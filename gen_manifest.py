#!/usr/bin/env python3
"""Writes MANIFEST.json from the table below (kept in one place so it stays consistent)."""
import json, sys

CHECKS = {
 "C01": ("differential vs reference interpreter (model-based PBT, step-wise state comparison) + CLI end-state; libFuzzer target fz_c01 in thorough",
         "DESIGN.md §4 C01",
         "Generated programs x stdin texts are executed command by command on the library interpreter and on an independent reference interpreter over exact rationals; stacks, selected stack, next location and both output streams are compared after every step, and the way the run ends is compared on the real binary. Exploration only: holds on the generated cases, no proof.",
         "trusted: reference interpreter + reference arithmetic in /verif/harness (self-tested against the repository's golden programs, i128 and python3); domain excludes counts >= 2^31 and output values >= 2^32 as the property does"),
 "C02": ("differential PBT: optimisation level 1/2 vs level 0 on the real binary (exact) and in-process under a step budget (prefix-compatibility)",
         "DESIGN.md §4 C02",
         "Generated programs x stdin are run at -O0/-O1/-O2; stdout, stderr and exit status must be identical (encoding-error case: same diagnostic kind, prefixes allowed); non-terminating programs are compared in-process for prefix-compatible output. Exploration only.",
         "trusted: the level-0 interpreter as the yardstick (tied to the definition by C01); reference model only classifies termination"),
 "C03": ("differential PBT: emitted Rust source compiled with rustc and run vs interpreter -O0",
         "DESIGN.md §4 C03",
         "For generated programs x levels 0..2 the emitted source must compile against the number-only runtime and the executable must produce the interpreter's stdout/stderr and way of ending on generated stdin. Exploration only, bounded by rustc throughput.",
         "trusted: rustc, the level-0 interpreter as yardstick (C01), process runner"),
 "C04": ("differential PBT vs independent two-phase reference parser over weighted Unicode alphabet, in-process and through source files listed by `hyeong check`; libFuzzer target fz_c04 in thorough",
         "DESIGN.md §4 C04",
         "Arbitrary Unicode strings are parsed by the implementation and by a reference parser written from the grammar; kind, counts, area tree, location and raw text of every command are compared; no panic. Exploration only.",
         "trusted: reference parser (self-tested on the repository's documented examples)"),
 "C05": ("differential PBT vs independent base-10^9 reference integers (boundary-limb generators, every API form); python3 cross-oracle and libFuzzer target fz_num in thorough",
         "DESIGN.md §4 C05",
         "All arithmetic, comparison, gcd, assign variants and the machine-integer constructor are compared with an independent exact reference on boundary-biased operands; results are checked structurally (normal form) and in print. Exploration only.",
         "trusted: RefInt (cross-checked against i128 on every run, python3 in thorough)"),
 "C06": ("differential PBT vs reference rationals over expression trees + metamorphic equal-value routes; libFuzzer target fz_num in thorough",
         "DESIGN.md §4 C06",
         "Expression trees over rationals are evaluated on the implementation and on reference rationals; every node must print canonically and agree on sign/NaN/floor; equal values via different routes must be ==. Exploration only.",
         "trusted: RefRat/RefInt"),
 "C07": ("differential PBT vs reference order on targeted pair shapes; branch selection vs executable definition; libFuzzer target fz_num in thorough",
         "DESIGN.md §4 C07",
         "Ordered pairs (incl. value vs its truncation/floor/ceiling, same numerator/denominator, NaN) are compared with the reference order in both directions; area::calc is compared with the definition on generated trees/values. Exploration only.",
         "trusted: RefRat order"),
 "C08": ("round-trip PBT: render(command list, junk plan) -> parse; parse(concat raw) = parse; inverse of the check listing on the real binary (incl. block-edge files); libFuzzer target fz_c04 in thorough",
         "DESIGN.md §4 C08",
         "Generated command lists are rendered with junk in every ignorable place and must parse back identically; raw texts must re-parse to the same commands for arbitrary strings; the `check` listing is inverted and must determine each command. Exploration only.",
         "trusted: the renderer only puts junk where the grammar ignores it (sound by construction, cross-checked by the reference parser)"),
 "C09": ("round-trip PBT + independent radix renderer; libFuzzer target fz_num in thorough",
         "DESIGN.md §4 C09",
         "Integers x bases 2..36 and rationals incl. NaN: implementation text = reference rendering, and both texts read back to the value. Exploration only.",
         "trusted: RefInt::to_radix (cross-checked against i128)"),
 "C10": ("history-invariant PBT on a child process: shared-offset sentinel on stdin, stdout/stderr silence, exit status, CPU bound",
         "DESIGN.md §4 C10",
         "A child calls optimize() on generated programs built to reach I/O stacks and to loop; the parent checks that stdin was not consumed, nothing was written, the process was not terminated and CPU time stayed bounded. Exploration only; the complexity bound itself is not decidable by testing.",
         "trusted: file-offset sharing semantics of dup'ed descriptors; RLIMIT_CPU"),
 "C11": ("model-based stateful PBT: debugger command histories vs a debugger model driven by the library interpreter, transcripts compared by semantic projection",
         "DESIGN.md §4 C11",
         "Generated input-free programs x command histories are fed to `hyeong debug`; the projected transcript (state dumps, listings, program output) and exit status must equal the model's. Exploration only.",
         "trusted: debugger model; interpreter states come from the library interpreter (C01)"),
 "C12": ("model-based PBT: all cuts of a program into REPL lines vs whole-run output of the reference interpreter",
         "DESIGN.md §4 C12",
         "Programs are cut into lines (with clear/help/blank lines) and entered in the interactive interpreter; per-line and total output must equal the reference run. Exploration only.",
         "trusted: reference interpreter (C01)"),
 "C13": ("robustness PBT/fuzzing of the CLI with model-predicted exit status over file bytes x stdin bytes x names x levels",
         "DESIGN.md §4 C13",
         "The real binary is run on generated file contents/stdin/file names; exit status must be the predicted one (0, requested, or 1 with a diagnostic) and never a panic/abort/signal. Exploration only.",
         "trusted: byte-level model of the failure paths; reference interpreter"),
 "C14": ("metamorphic PBT: stdout bytes = f(stdin bytes) for a fixed family of copy programs over all-plane UTF-8 texts x 6 configurations",
         "DESIGN.md §4 C14",
         "Copy/cat/reverse programs are run interpreted at 3 levels and compiled at 3 levels on generated UTF-8 texts; output bytes must equal the known function of the input. Exploration only.",
         "trusted: the copy programs' functions (validated against the reference interpreter at start)"),
}

def main():
    claimed = sys.argv[1].split(",") if len(sys.argv) > 1 else []
    checks = []
    for cid in sorted(CHECKS):
        if cid not in claimed:
            continue
        tech, ref, text, note = CHECKS[cid]
        checks.append({
            "property_id": cid,
            "quick_cmd": f"./check {cid} quick",
            "thorough_cmd": f"./check {cid} thorough",
            "evidence_file": f"/verif/evidence/{cid}.json",
            "replay_cmd_template": f"./check {cid} --replay {{path}}",
            "engine": "hv",
            "level_claimed": {"category": "exploration", "text": text, "design_ref": ref},
            "level_note": note,
            "technique": tech,
        })
    na = [{"property_id": cid, "reason": "check not built yet in this revision (work in progress; technique applies, see DESIGN.md)"}
          for cid in sorted(CHECKS) if cid not in claimed]
    m = {
        "version": 1,
        "setup_cmd": "./check --setup",
        "hooks": {
            "guard": "none (no source hooks: everything is observed through the public library API and the real binary)",
            "enable": "nothing to enable; checks build /repo as is",
            "baseline_off_cmd": "cd /repo && cargo test --workspace --no-fail-fast --offline",
            "source_commits": [],
            "add_only": True,
        },
        "engines": [
            {"name": "hv", "path": "/verif/harness", "serves_properties": claimed,
             "kind_free_text": "Rust harness: proptest-driven generated-input search (16 deterministic workers, seeded from VERIF_SEED), reference models, shrinking to JSON replay files"},
            {"name": "fuzz", "path": "/verif/fuzz", "serves_properties": [c for c in ["C01", "C04", "C05", "C06", "C07", "C08", "C09"] if c in claimed],
             "kind_free_text": "cargo-fuzz / libFuzzer targets fz_c01, fz_c04, fz_num: bytes -> structured case -> the same check functions as the hv search; run by the thorough tier (16 jobs, -seed derived from VERIF_SEED); a crash artifact is the replay file"},
            {"name": "python-cross-oracle", "path": "/verif/tools/xcheck_refnum.py", "serves_properties": [c for c in ["C05", "C06", "C07", "C09"] if c in claimed],
             "kind_free_text": "python3 integers/fractions re-compute sampled records of the reference arithmetic (trusted base) and of the implementation (C05 stage)"},
        ],
        "checks": checks,
        "not_applicable": na,
        "notes": "exit 0 = held on everything explored, 1 = VIOLATION line, 2 = INCONCLUSIVE (harness trouble / non-vacuity gate). Known findings: /verif/KNOWN_FINDINGS.txt.",
    }
    if not na:
        del m["not_applicable"]
        m["not_applicable"] = []
    json.dump(m, open("/verif/MANIFEST.json", "w"), indent=1, ensure_ascii=False)
    print("wrote MANIFEST.json with", len(checks), "checks")

main()
